(* HttpProofs.v — proofs about the middleware model Http.v (property C18).
   1. request side: what the handler reads; when a request is blocked
   2. response-phase blocking: invariant pre / safe / blocked over the handler's operations
   3. pass-through: simulation between the bare handler's writer and the middleware
      (relation R), by induction over the operation list
   4. the bare handler's client view, explicitly
   5. witnesses for the expectations the code does not meet *)
From Coq Require Import String.
From Verif Require Import Base Http.
Open Scope N_scope.

(* ==================== part P1 ==================== *)

(* ------------------------------------------------------------------ small facts *)
Lemma takeN_dropN : forall l n, takeN n l ++ dropN n l = l.
Proof.
  induction l as [|x l IH]; intro n; cbn; [reflexivity|].
  destruct (n =? 0); cbn; [reflexivity | now rewrite IH].
Qed.

Lemma takeN_all : forall l n, blen l <= n -> takeN n l = l.
Proof.
  induction l as [|x l IH]; intros n H; cbn; [reflexivity|].
  unfold blen in H. cbn [length] in H. rewrite Nat2N.inj_succ in H.
  destruct (n =? 0) eqn:E; [apply N.eqb_eq in E; lia|].
  f_equal. apply IH. unfold blen. apply N.eqb_neq in E. lia.
Qed.

Lemma is_info_200 : is_info 200 = false.
Proof. reflexivity. Qed.

Lemma bytes_nil_true : forall b, bytes_nil b = true -> b = [].
Proof. destruct b; cbn; congruence. Qed.

Lemma blen_zero : forall b, blen b = 0 -> b = [].
Proof. destruct b; unfold blen; cbn [length]; [reflexivity | rewrite Nat2N.inj_succ; lia]. Qed.

(* ------------------------------------------------------------------ request side *)
Lemma mw_request_view : forall cfg body v, mw_request cfg body = RPass v -> v = body.
Proof.
  intros cfg body v. unfold mw_request.
  repeat match goal with
         | |- context [match ?x with _ => _ end] => destruct x eqn:?
         end; intro H; inversion H; try reflexivity; apply takeN_dropN.
Qed.

(* the client's view of a downstream writer *)
Definition fin (d : ds) : N := match d_final d with Some c => c | None => 200 end.
Definition snapf (d : ds) : headers := match d_final d with Some _ => d_snap d | None => d_live d end.

Lemma client_of_view : forall sk d,
  client_of sk d = mkclient (fin d) (snapf d) (d_body d) (d_infos d).
Proof.
  intros sk d. unfold client_of, ds_finish, ds_implicit, fin, snapf.
  destruct (d_final d) eqn:E; cbn; [rewrite E; reflexivity|].
  unfold ds_write_header. rewrite E, is_info_200, Bool.andb_false_r. reflexivity.
Qed.

(* ------------------------------------------------------------------ handler's reads *)
Lemma hst_step_split : forall op h, h_read (hst_step op h) ++ h_view (hst_step op h) = h_read h ++ h_view h.
Proof.
  intros op h. destruct op; cbn; try reflexivity.
  - rewrite <- app_assoc, takeN_dropN. reflexivity.
  - now rewrite app_nil_r.
Qed.

Lemma run_hst_split_gen : forall ops h,
  let h' := fold_left (fun h op => hst_step op h) ops h in
  h_read h' ++ h_view h' = h_read h ++ h_view h.
Proof.
  induction ops as [|op ops IH]; intro h; cbn; [reflexivity|].
  rewrite IH. apply hst_step_split.
Qed.

(* whatever the handler reads is a prefix of the request body, in order *)
Lemma handler_reads_prefix : forall ops body,
  h_read (run_hst ops body) ++ h_view (run_hst ops body) = body.
Proof. intros. unfold run_hst. rewrite run_hst_split_gen. reflexivity. Qed.

Lemma view_nil_stays : forall ops h, h_view h = [] ->
  h_view (fold_left (fun h op => hst_step op h) ops h) = [].
Proof.
  induction ops as [|op ops IH]; intros h H; cbn; [exact H|].
  apply IH. destruct op; cbn; try exact H; try reflexivity. rewrite H. reflexivity.
Qed.

(* a handler that calls ReadAll somewhere has read exactly the request body *)
Lemma handler_readall_exact : forall ops body,
  In HReadAll ops -> h_read (run_hst ops body) = body.
Proof.
  intros ops body Hin.
  assert (h_view (run_hst ops body) = []) as Hv.
  { unfold run_hst. generalize (mkhst body []). revert Hin.
    induction ops as [|op ops IH]; intros Hin h; [destruct Hin|].
    cbn. destruct Hin as [->|Hin]; [apply view_nil_stays; reflexivity | apply IH; exact Hin]. }
  pose proof (handler_reads_prefix ops body) as H. rewrite Hv, app_nil_r in H. exact H.
Qed.

(* ==================== part P2 ==================== *)

(* ------------------------------------------------------------------ elementary facts about the writer *)
Lemma wh_body : forall sk c d, d_body (ds_write_header sk c d) = d_body d.
Proof. intros. unfold ds_write_header. destruct (d_final d); [reflexivity|]. destruct (sk && is_info c); reflexivity. Qed.
Lemma wh_live : forall sk c d, d_live (ds_write_header sk c d) = d_live d.
Proof. intros. unfold ds_write_header. destruct (d_final d); [reflexivity|]. destruct (sk && is_info c); reflexivity. Qed.
Lemma implicit_body : forall sk d, d_body (ds_implicit sk d) = d_body d.
Proof. intros. unfold ds_implicit. destruct (d_final d); [reflexivity | apply wh_body]. Qed.
Lemma implicit_live : forall sk d, d_live (ds_implicit sk d) = d_live d.
Proof. intros. unfold ds_implicit. destruct (d_final d); [reflexivity | apply wh_live]. Qed.
Lemma implicit_final : forall sk d, d_final (ds_implicit sk d) = Some (fin d).
Proof.
  intros. unfold ds_implicit, fin. destruct (d_final d) eqn:E; [exact E|].
  unfold ds_write_header. rewrite E, is_info_200, Bool.andb_false_r. reflexivity.
Qed.
Lemma flush_body : forall sk d, d_body (ds_flush sk d) = d_body d.
Proof. intros. unfold ds_flush. cbn. apply implicit_body. Qed.
Lemma append_body : forall b d, d_body (ds_append b d) = d_body d ++ b.
Proof. intros. unfold ds_append. destruct b; cbn; [now rewrite app_nil_r | reflexivity]. Qed.

(* ------------------------------------------------------------------ the interruption is sticky *)
Lemma resp_headers_sticky : forall cfg c live t x, t_intr t = Some x -> t_intr (tx_resp_headers cfg c live t) = Some x.
Proof. intros. unfold tx_resp_headers. destruct (3 <=? t_last t); cbn; [exact H|]. rewrite H. cbn. reflexivity. Qed.

Lemma resp_body_sticky : forall cfg t x, t_intr t = Some x -> tx_resp_body cfg t = t.
Proof. intros. unfold tx_resp_body. rewrite H. reflexivity. Qed.

Lemma write_resp_sticky : forall cfg b t x, t_intr t = Some x ->
  t_intr (fst (fst (tx_write_resp cfg b t))) = Some x.
Proof.
  intros. unfold tx_write_resp.
  destruct (t_rlim t =? blen (t_rbuf t)); [destruct (eff_action _ _); exact H|].
  destruct (t_rlim t <=? blen (t_rbuf t) + blen b); [|exact H].
  destruct (eff_action _ _); cbn; [rewrite H; exact H|].
  rewrite (resp_body_sticky cfg _ x); cbn; exact H.
Qed.

(* the interruption WriteResponseBody returns is the transaction's, except that an
   exhausted ProcessPartial buffer returns nil *)
Lemma write_resp_it : forall cfg b t t' it n, tx_write_resp cfg b t = (t', it, n) ->
  (it = t_intr t') \/ (it = None /\ t' = t).
Proof.
  intros cfg b t t' it n. unfold tx_write_resp.
  destruct (t_rlim t =? blen (t_rbuf t)).
  { destruct (eff_action _ _); intro H; inversion H; subst; [left|right]; auto. }
  destruct (t_rlim t <=? blen (t_rbuf t) + blen b).
  { destruct (eff_action _ _); intro H; inversion H; subst; left; reflexivity. }
  intro H; inversion H; subst; left; reflexivity.
Qed.

Lemma resp_body_buffering : forall cfg t, buffering cfg (tx_resp_body cfg t) = buffering cfg t.
Proof.
  intros. unfold tx_resp_body. destruct (t_intr t); [reflexivity|].
  destruct (negb (t_last t =? 3)); reflexivity.
Qed.

Lemma buffering_write_resp : forall cfg b t, buffering cfg (fst (fst (tx_write_resp cfg b t))) = buffering cfg t.
Proof.
  intros. unfold tx_write_resp.
  destruct (t_rlim t =? blen (t_rbuf t)); [destruct (eff_action _ _); reflexivity|].
  destruct (t_rlim t <=? blen (t_rbuf t) + blen b); [|reflexivity].
  destruct (eff_action _ _); cbn [fst].
  - destruct (t_intr t); reflexivity.
  - rewrite resp_body_buffering. reflexivity.
Qed.

(* ------------------------------------------------------------------ projections of the interceptor's moves *)
Lemma fh_tx : forall sk m, m_tx (ic_flush_header sk m) = m_tx m.
Proof. intros. unfold ic_flush_header. destruct (i_hflushed (m_ic m)); reflexivity. Qed.
Lemma fh_body : forall sk m, d_body (m_ds (ic_flush_header sk m)) = d_body (m_ds m).
Proof. intros. unfold ic_flush_header. destruct (i_hflushed (m_ic m)); [reflexivity | cbn; apply wh_body]. Qed.
Lemma fh_wrote : forall sk m, i_wrote (m_ic (ic_flush_header sk m)) = i_wrote (m_ic m).
Proof. intros. unfold ic_flush_header. destruct (i_hflushed (m_ic m)); reflexivity. Qed.
Lemma fh_released : forall sk m, i_released (m_ic (ic_flush_header sk m)) = i_released (m_ic m).
Proof. intros. unfold ic_flush_header. destruct (i_hflushed (m_ic m)); reflexivity. Qed.
Lemma fh_hflushed : forall sk m, i_hflushed (m_ic (ic_flush_header sk m)) = true.
Proof. intros. unfold ic_flush_header. destruct (i_hflushed (m_ic m)) eqn:E; [exact E | reflexivity]. Qed.

Lemma block_tx : forall sk it m, m_tx (ic_block sk it m) = m_tx m.
Proof. intros. unfold ic_block. rewrite fh_tx. reflexivity. Qed.
Lemma block_body : forall sk it m, d_body (m_ds (ic_block sk it m)) = d_body (m_ds m).
Proof. intros. unfold ic_block. rewrite fh_body. reflexivity. Qed.
Lemma block_wrote : forall sk it m, i_wrote (m_ic (ic_block sk it m)) = i_wrote (m_ic m).
Proof. intros. unfold ic_block. rewrite fh_wrote. reflexivity. Qed.
Lemma block_hflushed : forall sk it m, i_hflushed (m_ic (ic_block sk it m)) = true.
Proof. intros. unfold ic_block. apply fh_hflushed. Qed.

Lemma wh_tx : forall cfg sk c m,
  m_tx (ic_write_header cfg sk c m) =
  if i_wrote (m_ic m) then m_tx m else tx_resp_headers cfg c (d_live (m_ds m)) (m_tx m).
Proof.
  intros. unfold ic_write_header. destruct (i_wrote (m_ic m)); [reflexivity|].
  destruct (t_intr (tx_resp_headers cfg c (d_live (m_ds m)) (m_tx m))); [rewrite block_tx; reflexivity|].
  destruct (negb _); cbn; destruct (c =? 101); cbn; rewrite ?fh_tx; reflexivity.
Qed.
Lemma wh_dbody : forall cfg sk c m, d_body (m_ds (ic_write_header cfg sk c m)) = d_body (m_ds m).
Proof.
  intros. unfold ic_write_header. destruct (i_wrote (m_ic m)); [reflexivity|].
  destruct (t_intr _); [rewrite block_body; reflexivity|].
  destruct (negb _); cbn; destruct (c =? 101); cbn; rewrite ?fh_body; reflexivity.
Qed.
Lemma wh_wrote : forall cfg sk c m, i_wrote (m_ic (ic_write_header cfg sk c m)) = true.
Proof.
  intros. unfold ic_write_header. destruct (i_wrote (m_ic m)) eqn:E; [exact E|].
  destruct (t_intr _); [rewrite block_wrote; reflexivity|].
  destruct (negb _); cbn; destruct (c =? 101); cbn; rewrite ?fh_wrote; reflexivity.
Qed.

Lemma release_tx : forall sk m, m_tx (ic_release sk m) = m_tx m.
Proof. intros. unfold ic_release. destruct (i_released (m_ic m)); [reflexivity | cbn; apply fh_tx]. Qed.
Lemma release_wrote : forall sk m, i_wrote (m_ic (ic_release sk m)) = i_wrote (m_ic m).
Proof. intros. unfold ic_release. destruct (i_released (m_ic m)); [reflexivity | cbn; apply fh_wrote]. Qed.

(* ==================== part P3 ==================== *)


(* ------------------------------------------------------------------ response-phase blocking *)
(* three modes of the interceptor: no byte of the handler has reached the writer yet (pre),
   bytes flow and no rule will be evaluated any more (safe), interrupted with an empty body (blocked) *)
Definition safe (cfg : config) (m : mws) : Prop :=
  t_intr (m_tx m) = None /\ i_wrote (m_ic m) = true /\
  (buffering cfg (m_tx m) = false \/ i_released (m_ic m) = true).
Definition pre (m : mws) : Prop :=
  t_intr (m_tx m) = None /\ d_body (m_ds m) = [] /\
  (i_wrote (m_ic m) = false -> i_hflushed (m_ic m) = false /\ d_final (m_ds m) = None).
Definition blocked (m : mws) : Prop :=
  t_intr (m_tx m) <> None /\ i_wrote (m_ic m) = true /\ d_body (m_ds m) = [].
Definition inv (cfg : config) (m : mws) : Prop := safe cfg m \/ pre m \/ blocked m.

Ltac spl3 := repeat match goal with
  | |- _ /\ _ => split
  | |- pre _ => unfold pre
  | |- safe _ _ => unfold safe
  | |- blocked _ => unfold blocked
  end.

Lemma inv_init : forall cfg t0, t_intr t0 = None -> inv cfg (mw_start t0).
Proof. intros cfg t0 H. right; left. spl3; try reflexivity; [exact H|]. intros _. split; reflexivity. Qed.

Lemma wh_inv : forall cfg sk c m, inv cfg m -> inv cfg (ic_write_header cfg sk c m).
Proof.
  intros cfg sk c m H.
  destruct (i_wrote (m_ic m)) eqn:W.
  { unfold ic_write_header. rewrite W. exact H. }
  destruct H as [[_ [W' _]]|[[Hi [Hb _]]|[_ [W' _]]]]; try congruence.
  destruct (t_intr (m_tx (ic_write_header cfg sk c m))) eqn:E.
  - right; right. spl3; [congruence | apply wh_wrote | rewrite wh_dbody; exact Hb].
  - right; left. spl3; [exact E | rewrite wh_dbody; exact Hb |].
    rewrite wh_wrote. discriminate.
Qed.

Lemma write_inv : forall cfg sk b m, inv cfg m -> inv cfg (ic_write cfg sk b m).
Proof.
  intros cfg sk b m H. unfold ic_write.
  destruct (t_intr (m_tx m)) eqn:I; [exact H|].
  set (m1 := if i_wrote (m_ic m) then m else ic_write_header cfg sk 200 m).
  assert (inv cfg m1) as H1 by (subst m1; destruct (i_wrote (m_ic m)); [exact H | apply wh_inv; exact H]).
  assert (i_wrote (m_ic m1) = true) as W1
    by (subst m1; destruct (i_wrote (m_ic m)) eqn:W; [exact W | apply wh_wrote]).
  destruct (t_intr (m_tx m1)) eqn:I1.
  - (* interrupted by the implicit WriteHeader of this very Write: nothing else happens *)
    exact H1.
  - (* not interrupted so far *)
    destruct (buffering cfg (m_tx m1) && negb (i_released (m_ic m1))) eqn:B.
    + assert (pre m1) as P1.
      { destruct H1 as [[_ [_ [X|X]]]|[P|[X _]]]; try exact P; try congruence.
        - apply andb_true_iff in B as [B _]. congruence.
        - apply andb_true_iff in B as [_ B]. rewrite X in B. discriminate. }
      destruct P1 as [_ [Hb _]].
      destruct (tx_write_resp cfg b (m_tx m1)) as [[t' it] n] eqn:E.
      pose proof (write_resp_it cfg b (m_tx m1) t' it n E) as Hit.
      destruct it as [it|].
      * right; right. spl3.
        -- rewrite block_tx. cbn. destruct Hit as [Hit|[Hit _]]; congruence.
        -- rewrite block_wrote. exact W1.
        -- rewrite block_body. exact Hb.
      * assert (t_intr t' = None) as I' by (destruct Hit as [Hit|[_ Hit]]; [congruence | subst; exact I1]).
        destruct (n =? blen b).
        { right; left. spl3; try assumption. cbn. rewrite W1. discriminate. }
        set (m3 := ic_release sk (mw_set_tx t' m1)).
        assert (m_tx m3 = t') as T3 by (subst m3; rewrite release_tx; reflexivity).
        assert (i_wrote (m_ic m3) = true) as W3 by (subst m3; rewrite release_wrote; exact W1).
        destruct (i_released (m_ic m3)) eqn:R3.
        -- left. spl3; cbn; [rewrite T3; exact I' | exact W3 | right; exact R3].
        -- right; left. spl3; [rewrite T3; exact I' | | rewrite W3; discriminate].
           subst m3. unfold ic_release in *. cbn [mw_set_tx m_ic m_ds m_tx] in *.
           apply andb_true_iff in B as [_ B]. apply negb_true_iff in B. rewrite B in *.
           cbn [m_ic m_ds m_tx i_released] in *.
           rewrite fh_tx in *. cbn [m_tx] in *.
           apply orb_false_iff in R3 as [N A]. rewrite N.
           unfold ds_write. rewrite A. rewrite implicit_body, fh_body. exact Hb.
    + left.
      assert (buffering cfg (m_tx m1) = false \/ i_released (m_ic m1) = true) as X.
      { apply andb_false_iff in B as [B|B]; [left; exact B | right; apply negb_false_iff in B; exact B]. }
      spl3; cbn; rewrite ?fh_tx, ?fh_wrote, ?fh_released; assumption.
Qed.

Lemma flush_inv : forall cfg sk m, inv cfg m -> inv cfg (ic_flush cfg sk m).
Proof.
  intros cfg sk m H. unfold ic_flush.
  set (m1 := if i_wrote (m_ic m) then m else ic_write_header cfg sk 200 m).
  assert (inv cfg m1) as H1 by (subst m1; destruct (i_wrote (m_ic m)); [exact H | apply wh_inv; exact H]).
  destruct (i_allow (m_ic m1) && i_hflushed (m_ic m1)) eqn:AF; [|exact H1].
  unfold inv, safe, pre, blocked in *. cbn [mw_set_ds m_tx m_ic m_ds]. rewrite flush_body.
  destruct H1 as [S|[[A [B C]]|Bl]]; [left; exact S | right; left | right; right; exact Bl].
  spl3; try assumption. intro W. destruct (C W) as [C1 C2].
  apply andb_true_iff in AF as [_ AF]. congruence.
Qed.

Lemma setlive_inv : forall cfg h m, inv cfg m -> inv cfg (mw_set_ds (ds_set_live h (m_ds m)) m).
Proof. intros cfg h m H. exact H. Qed.

Lemma step_inv : forall cfg sk op m, inv cfg m -> inv cfg (mw_step cfg sk m op).
Proof.
  intros cfg sk op m H. destruct op; cbn [mw_step].
  - apply wh_inv; exact H.
  - apply setlive_inv; exact H.
  - apply setlive_inv; exact H.
  - apply setlive_inv; exact H.
  - apply write_inv; exact H.
  - apply flush_inv; exact H.
  - revert m H. induction chunks as [|b cs IH]; intros m H; cbn; [exact H|].
    apply IH. apply write_inv. exact H.
  - exact H.
  - exact H.
Qed.

Lemma steps_inv : forall cfg sk ops m, inv cfg m -> inv cfg (fold_left (mw_step cfg sk) ops m).
Proof.
  intros cfg sk ops. induction ops as [|op ops IH]; intros m H; cbn; [exact H|].
  apply IH. apply step_inv. exact H.
Qed.

Lemma finish_blocked_body : forall cfg sk m, inv cfg m ->
  t_intr (m_tx (ic_finish cfg sk m)) <> None -> d_body (m_ds (ic_finish cfg sk m)) = [].
Proof.
  intros cfg sk m H. unfold ic_finish.
  destruct (t_intr (m_tx m)) eqn:I.
  { intros _. destruct H as [[X _]|[[X _]|[_ [_ X]]]]; congruence. }
  destruct (buffering cfg (m_tx m) && negb (i_released (m_ic m))) eqn:B.
  - assert (d_body (m_ds m) = []) as Hb.
    { destruct H as [[_ [_ [X|X]]]|[[_ [X _]]|[X _]]]; try congruence.
      - apply andb_true_iff in B as [B _]. congruence.
      - apply andb_true_iff in B as [_ B]. rewrite X in B. discriminate. }
    destruct (t_intr (tx_resp_body cfg (m_tx m))) eqn:E.
    + intros _. rewrite block_body. exact Hb.
    + rewrite release_tx. cbn. congruence.
  - rewrite fh_tx. cbn. congruence.
Qed.

(* every writer: a response that ends interrupted delivered no body byte *)
Theorem response_block_holds : forall cfg sk t0 ops, t_intr t0 = None ->
  let m := run_mw_handler cfg sk t0 ops in
  t_intr (m_tx m) <> None -> cl_body (client_of sk (m_ds m)) = [].
Proof.
  intros cfg sk t0 ops H0 m Hi. rewrite client_of_view. cbn.
  subst m. unfold run_mw_handler in *. apply finish_blocked_body; [|exact Hi].
  apply steps_inv. apply inv_init. exact H0.
Qed.

(* ==================== part P4 ==================== *)

(* ------------------------------------------------------------------ header maps *)
Lemma h_get_del : forall k k' h, h_get k (h_del k' h) = if bytes_eqb k k' then [] else h_get k h.
Proof.
  intros k k' h. induction h as [|[k0 vs] h IH]; cbn.
  - destruct (bytes_eqb k k'); reflexivity.
  - destruct (bytes_eqb k' k0) eqn:E.
    + apply bytes_eqb_eq in E. subst k0. rewrite IH. destruct (bytes_eqb k k'); reflexivity.
    + cbn. rewrite IH. destruct (bytes_eqb k k0) eqn:F; [|reflexivity].
      apply bytes_eqb_eq in F. subst k0. destruct (bytes_eqb k k') eqn:G; [|reflexivity].
      apply bytes_eqb_eq in G. subst k'. rewrite bytes_eqb_refl in E. discriminate.
Qed.

Lemma bytes_eqb_sym : forall a b, bytes_eqb a b = bytes_eqb b a.
Proof.
  intros a b. destruct (bytes_eqb a b) eqn:E.
  - apply bytes_eqb_eq in E. subst. symmetry. apply bytes_eqb_refl.
  - destruct (bytes_eqb b a) eqn:F; [|reflexivity]. apply bytes_eqb_eq in F. subst. rewrite bytes_eqb_refl in E. discriminate.
Qed.

Lemma cl_of_hdr_step : forall op h, touches_cl op = false -> cl_of h = None -> cl_of (hdr_step op h) = None.
Proof.
  intros op h T H. unfold cl_of in *. destruct op; cbn [hdr_step touches_cl] in *; try exact H.
  - unfold h_set. cbn [h_get]. rewrite (bytes_eqb_sym K_CL k), T. rewrite h_get_del, (bytes_eqb_sym K_CL k), T. exact H.
  - unfold h_add. cbn [h_get]. rewrite (bytes_eqb_sym K_CL k), T. rewrite h_get_del, (bytes_eqb_sym K_CL k), T. exact H.
  - rewrite h_get_del. destruct (bytes_eqb K_CL k); [reflexivity | exact H].
Qed.

(* ------------------------------------------------------------------ the writer seen through its client *)
Definition snap_ok (d : ds) : Prop := d_final d <> None -> d_snap d = d_live d.
Definition wfd (d : ds) : Prop := snap_ok d /\ cl_of (d_live d) = None.
Definition pristine (d : ds) : Prop := d_final d = None /\ d_infos d = [] /\ d_body d = [].

Lemma snapf_live : forall d, snap_ok d -> snapf d = d_live d.
Proof. intros d H. unfold snapf. destruct (d_final d) eqn:E; [apply H; congruence | reflexivity]. Qed.

Lemma wh_some : forall sk c d x, d_final d = Some x -> ds_write_header sk c d = d.
Proof. intros. unfold ds_write_header. rewrite H. reflexivity. Qed.

Lemma wh_none : forall sk c d, d_final d = None ->
  let d' := ds_write_header sk c d in
  d_live d' = d_live d /\ d_body d' = d_body d /\ snap_ok d' /\
  d_final d' = (if sk && is_info c then None else Some c) /\
  d_infos d' = (if sk && is_info c then d_infos d ++ [c] else d_infos d) /\
  fin d' = (if sk && is_info c then 200 else c).
Proof.
  intros sk c d H. unfold ds_write_header, fin, snap_ok. rewrite H.
  destruct (sk && is_info c); cbn; repeat split; try reflexivity; intro X; congruence.
Qed.

Lemma implicit_view : forall sk d, snap_ok d ->
  let d' := ds_implicit sk d in
  d_live d' = d_live d /\ d_body d' = d_body d /\ snap_ok d' /\
  d_final d' = Some (fin d) /\ d_infos d' = d_infos d /\ fin d' = fin d /\ d_snap d' = d_live d.
Proof.
  intros sk d S. unfold ds_implicit. destruct (d_final d) eqn:E.
  - unfold fin. rewrite E. repeat split; try reflexivity; try assumption. apply S. congruence.
  - unfold ds_write_header, fin, snap_ok. rewrite E, is_info_200, Bool.andb_false_r. cbn.
    repeat split; reflexivity.
Qed.

Lemma accepts_okb : forall sk b d, wfd d -> ds_accepts sk b (ds_implicit sk d) = okb sk (fin d).
Proof.
  intros sk b d [S C]. pose proof (implicit_view sk d S) as V. cbv zeta in V.
  destruct V as [A [B [_ [D [_ [_ G]]]]]].
  unfold ds_accepts, okb. rewrite D, G, C. destruct sk; cbn; [|reflexivity].
  rewrite Bool.andb_true_r, Bool.negb_involutive. reflexivity.
Qed.

Lemma write_view : forall sk b d, wfd d ->
  let d' := ds_write sk b d in
  d_live d' = d_live d /\ wfd d' /\ d_final d' = Some (fin d) /\ d_infos d' = d_infos d /\ fin d' = fin d /\
  d_body d' = d_body d ++ (if okb sk (fin d) then b else []).
Proof.
  intros sk b d W. pose proof W as [S C].
  pose proof (implicit_view sk d S) as V. cbv zeta in V. destruct V as [A [B [S' [D [F [G _]]]]]].
  unfold ds_write. rewrite (accepts_okb sk b d W).
  destruct (okb sk (fin d)).
  - unfold ds_append. destruct (bytes_nil b) eqn:N.
    + apply bytes_nil_true in N. subst b. rewrite app_nil_r.
      repeat split; try assumption. rewrite A. exact C.
    + cbn. unfold wfd, snap_ok, fin in *. cbn. rewrite D in *. rewrite B, F, A.
      repeat split; try assumption; try reflexivity.
      intro X. rewrite (S' X). exact A.
  - rewrite app_nil_r. repeat split; try assumption. rewrite A. exact C.
Qed.

Lemma flush_view : forall sk d, wfd d ->
  let d' := ds_flush sk d in
  d_live d' = d_live d /\ wfd d' /\ d_final d' = Some (fin d) /\ d_infos d' = d_infos d /\ fin d' = fin d /\
  d_body d' = d_body d.
Proof.
  intros sk d [S C].
  pose proof (implicit_view sk d S) as V. cbv zeta in V. destruct V as [A [B [S' [D [F [G _]]]]]].
  unfold ds_flush, wfd, snap_ok, fin in *. cbn. rewrite D in *. rewrite A.
  repeat split; try assumption; try reflexivity.
  intro X. rewrite (S' X). exact A.
Qed.

Lemma write_after_header200 : forall sk b d, ds_write sk b (ds_write_header sk 200 d) = ds_write sk b d.
Proof.
  intros. destruct (d_final d) eqn:E; [rewrite (wh_some sk 200 d n E); reflexivity|].
  assert (d_final (ds_write_header sk 200 d) = Some 200) as F
    by (unfold ds_write_header; rewrite E, is_info_200, Bool.andb_false_r; reflexivity).
  unfold ds_write, ds_implicit. rewrite F, E. reflexivity.
Qed.

Lemma flush_after_header200 : forall sk d, ds_flush sk (ds_write_header sk 200 d) = ds_flush sk d.
Proof.
  intros. destruct (d_final d) eqn:E; [rewrite (wh_some sk 200 d n E); reflexivity|].
  assert (d_final (ds_write_header sk 200 d) = Some 200) as F
    by (unfold ds_write_header; rewrite E, is_info_200, Bool.andb_false_r; reflexivity).
  unfold ds_flush, ds_implicit. rewrite F, E. reflexivity.
Qed.

(* ==================== part P9 ==================== *)

Ltac spl := repeat match goal with |- _ /\ _ => split end.

(* ------------------------------------------------------------------ what the bare handler's client receives *)
Lemma writes_view : forall sk cs d, wfd d -> cs <> [] ->
  let d' := fold_left (fun d b => ds_write sk b d) cs d in
  d_live d' = d_live d /\ wfd d' /\ d_final d' = Some (fin d) /\ fin d' = fin d /\
  d_body d' = d_body d ++ (if okb sk (fin d) then concat cs else []).
Proof.
  intros sk cs. induction cs as [|b cs IH]; intros d W NE; [congruence|]. cbn [fold_left concat].
  pose proof (write_view sk b d W) as V. cbv zeta in V. destruct V as [A [W1 [F1 [_ [N1 B1]]]]].
  destruct cs as [|b2 cs].
  - cbn [fold_left concat]. rewrite app_nil_r.
    split; [exact A|]. split; [exact W1|]. split; [exact F1|]. split; [exact N1 | exact B1].
  - assert (b2 :: cs <> []) as NE2 by discriminate.
    destruct (IH _ W1 NE2) as [A2 [W2 [F2 [N2 B2]]]].
    rewrite A2, F2, N2, B2, A, N1, B1. spl; try assumption; try reflexivity.
    rewrite <- app_assoc. f_equal. destruct (okb sk (fin d)); reflexivity.
Qed.

Lemma no_hdr_fold : forall ops h, forallb (fun o => negb (is_hdr_op o)) ops = true ->
  fold_left (fun h op => hdr_step op h) ops h = h.
Proof.
  induction ops as [|op ops IH]; intros h H; cbn in *; [reflexivity|].
  apply andb_true_iff in H as [H1 H2]. rewrite IH by exact H2.
  destruct op; cbn in *; try reflexivity; discriminate.
Qed.

Lemma no_hdr_no_late : forall ops, forallb (fun o => negb (is_hdr_op o)) ops = true -> no_late_headers ops = true.
Proof.
  induction ops as [|op ops IH]; intro H; cbn in *; [reflexivity|].
  apply andb_true_iff in H as [_ H]. destruct (commits op); [exact H | apply IH; exact H].
Qed.

(* once the status is committed (and no header is touched any more) *)
Lemma direct_committed : forall sk ops d c, wfd d -> d_final d = Some c ->
  forallb (fun o => negb (is_hdr_op o)) ops = true ->
  let d' := fold_left (ds_step sk) ops d in
  wfd d' /\ d_final d' = Some c /\ d_live d' = d_live d /\
  d_body d' = d_body d ++ (if okb sk c then written ops else []).
Proof.
  intros sk ops. induction ops as [|op ops IH]; intros d c W F H; cbn [fold_left written].
  - destruct (okb sk c); rewrite app_nil_r; spl; try assumption; reflexivity.
  - cbn in H. apply andb_true_iff in H as [H1 H2].
    assert (fin d = c) as Fc by (unfold fin; rewrite F; reflexivity).
    destruct op; cbn [ds_step is_hdr_op negb] in *; try discriminate.
    + rewrite (wh_some sk c0 d c F). apply IH; assumption.
    + pose proof (write_view sk b d W) as V. cbv zeta in V. destruct V as [A [W1 [F1 [_ [N1 B1]]]]].
      rewrite Fc in *.
      destruct (IH _ c W1 F1 H2) as [W2 [F2 [L2 B2]]].
      rewrite B2, B1, L2, A. spl; try assumption; try reflexivity.
      rewrite <- app_assoc. f_equal. destruct (okb sk c); reflexivity.
    + pose proof (flush_view sk d W) as V. cbv zeta in V. destruct V as [A [W1 [F1 [_ [N1 B1]]]]].
      rewrite Fc in *.
      destruct (IH _ c W1 F1 H2) as [W2 [F2 [L2 B2]]].
      rewrite B2, B1, L2, A. spl; try assumption; reflexivity.
    + destruct chunks as [|b cs].
      * cbn. apply IH; assumption.
      * assert (b :: cs <> []) as NE by discriminate.
        pose proof (writes_view sk (b :: cs) d W NE) as V. cbv zeta in V. destruct V as [A [W1 [F1 [N1 B1]]]].
        rewrite Fc in *.
        destruct (IH _ c W1 F1 H2) as [W2 [F2 [L2 B2]]].
        rewrite B2, B1, L2, A. spl; try assumption; try reflexivity.
        rewrite <- app_assoc. f_equal. destruct (okb sk c); reflexivity.
    + apply IH; assumption.
    + apply IH; assumption.
Qed.

Lemma direct_fresh : forall sk ops d, wfd d -> d_final d = None -> d_body d = [] ->
  no_late_headers ops = true -> no_own_cl ops = true ->
  let d' := fold_left (ds_step sk) ops d in
  wfd d' /\ fin d' = handler_status sk ops /\
  snapf d' = fold_left (fun h op => hdr_step op h) ops (d_live d) /\
  d_body d' = (if okb sk (handler_status sk ops) then written ops else []).
Proof.
  intros sk ops. induction ops as [|op ops IH]; intros d W F B L C; cbn [fold_left written handler_status].
  - unfold fin, snapf. rewrite F, B. destruct (okb sk 200); spl; try assumption; reflexivity.
  - unfold no_own_cl in C. cbn in C. apply andb_true_iff in C as [C1 C2]. apply negb_true_iff in C1.
    cbn [no_late_headers] in L.
    assert (forall d1 c, wfd d1 -> d_final d1 = Some c -> d_snap d1 = d_live d -> d_live d1 = d_live d ->
            forall x, d_body d1 = (if okb sk c then x else []) ->
            forallb (fun o => negb (is_hdr_op o)) ops = true ->
            let d' := fold_left (ds_step sk) ops d1 in
            wfd d' /\ fin d' = c /\ snapf d' = fold_left (fun h op => hdr_step op h) ops (d_live d) /\
            d_body d' = (if okb sk c then x ++ written ops else [])) as K.
    { intros d1 c W1 F1 S1 L1 x B1 H.
      destruct (direct_committed sk ops d1 c W1 F1 H) as [W2 [F2 [L2 B2]]]. cbv zeta.
      rewrite (no_hdr_fold ops _ H). unfold fin, snapf. rewrite F2.
      destruct W2 as [S2 C2']. rewrite (S2 ltac:(congruence)), L2, L1, B2, B1.
      spl; try assumption; try reflexivity.
      - split; assumption.
      - destruct (okb sk c); reflexivity. }
    destruct op; cbn [ds_step commits hdr_step] in *.
    + (* WriteHeader *)
      pose proof (wh_none sk c d F) as V. cbv zeta in V. destruct V as [A [B1 [S1 [F1 [_ G1]]]]].
      destruct (sk && is_info c) eqn:Z.
      * (* informational: still uncommitted; later WriteHeaders are possible in the bare run *)
        assert (no_late_headers ops = true) as L' by (apply no_hdr_no_late; exact L).
        destruct (IH (ds_write_header sk c d)) as [W2 [F2 [S2 B2]]]; try assumption.
        -- destruct W as [_ Cd]. split; [exact S1 | rewrite A; exact Cd].
        -- rewrite B1; exact B.
        -- rewrite A in S2. spl; assumption.
      * assert (d_snap (ds_write_header sk c d) = d_live d) as Sn
          by (unfold ds_write_header; rewrite F, Z; reflexivity).
        destruct W as [_ Cd].
        destruct (K (ds_write_header sk c d) c) with (x := @nil N) as [W2 [F2 [S2 B2]]]; try assumption.
        -- split; [exact S1 | rewrite A; exact Cd].
        -- rewrite B1, B. destruct (okb sk c); reflexivity.
        -- spl; assumption.
    + destruct (IH (ds_set_live (h_set k v (d_live d)) d)) as [W2 [F2 [S2 B2]]]; try assumption; try reflexivity.
      * destruct W as [_ Cd]. split; [intro X; cbn in X; congruence|].
        cbn. apply (cl_of_hdr_step (HSet k v)); assumption.
      * spl; assumption.
    + destruct (IH (ds_set_live (h_add k v (d_live d)) d)) as [W2 [F2 [S2 B2]]]; try assumption; try reflexivity.
      * destruct W as [_ Cd]. split; [intro X; cbn in X; congruence|].
        cbn. apply (cl_of_hdr_step (HAdd k v)); assumption.
      * spl; assumption.
    + destruct (IH (ds_set_live (h_del k (d_live d)) d)) as [W2 [F2 [S2 B2]]]; try assumption; try reflexivity.
      * destruct W as [_ Cd]. split; [intro X; cbn in X; congruence|].
        cbn. apply (cl_of_hdr_step (HDel k)); assumption.
      * spl; assumption.
    + (* Write *)
      pose proof (write_view sk b d W) as V. cbv zeta in V. destruct V as [A [W1 [F1 [_ [N1 B1]]]]].
      assert (fin d = 200) as Fd by (unfold fin; rewrite F; reflexivity). rewrite Fd in *.
      destruct (K (ds_write sk b d) 200) with (x := b) as [W2 [F2 [S2 B2]]]; try assumption.
      * destruct W1 as [S1 _]. rewrite (S1 ltac:(congruence)). exact A.
      * rewrite B1, B. reflexivity.
      * spl; assumption.
    + (* Flush *)
      pose proof (flush_view sk d W) as V. cbv zeta in V. destruct V as [A [W1 [F1 [_ [N1 B1]]]]].
      assert (fin d = 200) as Fd by (unfold fin; rewrite F; reflexivity). rewrite Fd in *.
      destruct (K (ds_flush sk d) 200) with (x := @nil N) as [W2 [F2 [S2 B2]]]; try assumption.
      * destruct W1 as [S1 _]. rewrite (S1 ltac:(congruence)). exact A.
      * rewrite B1, B. destruct (okb sk 200); reflexivity.
      * spl; assumption.
    + destruct chunks as [|b cs]; cbn [fold_left concat negb] in *.
      * destruct (IH d) as [W2 [F2 [S2 B2]]]; try assumption. spl; assumption.
      * assert (b :: cs <> []) as NE by discriminate.
        pose proof (writes_view sk (b :: cs) d W NE) as V. cbv zeta in V. destruct V as [A [W1 [F1 [N1 B1]]]].
        assert (fin d = 200) as Fd by (unfold fin; rewrite F; reflexivity). rewrite Fd in *.
        destruct (K (fold_left (fun d b => ds_write sk b d) (b :: cs) d) 200) with (x := concat (b :: cs)) as [W2 [F2 [S2 B2]]]; try assumption.
        -- destruct W1 as [S1 _]. rewrite (S1 ltac:(congruence)). exact A.
        -- rewrite B1, B. reflexivity.
        -- spl; assumption.
    + destruct (IH d) as [W2 [F2 [S2 B2]]]; try assumption. spl; assumption.
    + destruct (IH d) as [W2 [F2 [S2 B2]]]; try assumption. spl; assumption.
Qed.

(* ==================== part P5 ==================== *)

(* ------------------------------------------------------------------ the simulation relation *)
(* the writer as it will be once the recorded status has been flushed *)
Definition vds (sk : bool) (m : mws) : ds :=
  if i_hflushed (m_ic m) then m_ds m else ds_write_header sk (i_status (m_ic m)) (m_ds m).
(* bytes held back in the transaction's buffer *)
Definition pend (cfg : config) (m : mws) : bytes :=
  if buffering cfg (m_tx m) && negb (i_released (m_ic m)) then t_rbuf (m_tx m) else [].

(* dd: the writer of the bare handler; m: the middleware; after the first status-committing operation *)
Definition Rw (cfg : config) (sk : bool) (dd : ds) (m : mws) : Prop :=
  t_intr (m_tx m) = None /\ d_live dd = d_live (m_ds m) /\ wfd dd /\ wfd (m_ds m) /\
  d_infos dd = d_infos (vds sk m) /\ fin dd = fin (vds sk m) /\
  d_body dd = d_body (vds sk m) ++ (if okb sk (fin (vds sk m)) then pend cfg m else []) /\
  (i_hflushed (m_ic m) = false -> pristine (m_ds m)) /\
  (d_final dd = None -> is_info (i_status (m_ic m)) = true).

(* before it *)
Definition R0 (dd : ds) (m : mws) : Prop :=
  t_intr (m_tx m) = None /\ d_live dd = d_live (m_ds m) /\ wfd dd /\ wfd (m_ds m) /\
  pristine dd /\ pristine (m_ds m) /\ i_hflushed (m_ic m) = false /\ i_released (m_ic m) = false /\
  t_rbuf (m_tx m) = [] /\ i_status (m_ic m) = 200.

Definition R (cfg : config) (sk : bool) (dd : ds) (m : mws) : Prop :=
  if i_wrote (m_ic m) then Rw cfg sk dd m else R0 dd m.

Lemma vds_facts : forall sk m, wfd (m_ds m) -> (i_hflushed (m_ic m) = false -> pristine (m_ds m)) ->
  wfd (vds sk m) /\ d_live (vds sk m) = d_live (m_ds m).
Proof.
  intros sk m W P. unfold vds. destruct (i_hflushed (m_ic m)); [split; [exact W | reflexivity]|].
  destruct (P eq_refl) as [F _].
  pose proof (wh_none sk (i_status (m_ic m)) (m_ds m) F) as V. cbv zeta in V.
  destruct V as [A [_ [S _]]]. destruct W as [_ C].
  split; [split; [exact S | rewrite A; exact C] | exact A].
Qed.

Lemma vds_flush_header : forall sk m, vds sk (ic_flush_header sk m) = vds sk m.
Proof.
  intros. unfold vds, ic_flush_header. destruct (i_hflushed (m_ic m)) eqn:E; cbn; [rewrite E|]; reflexivity.
Qed.

(* R looks at the bare writer only through what its client sees *)
Definition veq (d1 d2 : ds) : Prop :=
  d_live d1 = d_live d2 /\ wfd d1 /\ wfd d2 /\ d_infos d1 = d_infos d2 /\ fin d1 = fin d2 /\
  d_body d1 = d_body d2 /\ (d_final d1 = None <-> d_final d2 = None).

Lemma Rw_veq : forall cfg sk d1 d2 m, veq d1 d2 -> Rw cfg sk d1 m -> Rw cfg sk d2 m.
Proof.
  intros cfg sk d1 d2 m [A [B [C [D [E [F G]]]]]] [H1 [H2 [H3 [H4 [H5 [H6 [H7 [H8 H9]]]]]]]].
  unfold Rw. rewrite <- A, <- D, <- E, <- F.
  spl; try assumption. intro X. apply H9. apply G. exact X.
Qed.

Lemma veq_split_write : forall sk n b d, wfd d ->
  veq (ds_write sk (dropN n b) (ds_write sk (takeN n b) d)) (ds_write sk b d).
Proof.
  intros sk n b d W.
  pose proof (write_view sk (takeN n b) d W) as V1. cbv zeta in V1. destruct V1 as [A1 [W1 [F1 [I1 [N1 B1]]]]].
  pose proof (write_view sk (dropN n b) _ W1) as V2. cbv zeta in V2. destruct V2 as [A2 [W2 [F2 [I2 [N2 B2]]]]].
  pose proof (write_view sk b d W) as V3. cbv zeta in V3. destruct V3 as [A3 [W3 [F3 [I3 [N3 B3]]]]].
  unfold veq. rewrite A2, A1, A3, I2, I1, I3, N2, N1, N3, B2, B1, B3, N1, F2, F3.
  spl; try assumption; try reflexivity; try discriminate.
  all: try (split; intro; discriminate).
  rewrite <- app_assoc. f_equal. destruct (okb sk (fin d)); [apply takeN_dropN | reflexivity].
Qed.

(* ------------------------------------------------------------------ moves that keep R (status already recorded) *)
Lemma Rw_flush_header : forall cfg sk dd m, Rw cfg sk dd m -> Rw cfg sk dd (ic_flush_header sk m).
Proof.
  intros cfg sk dd m H. pose proof H as [H1 [H2 [H3 [H4 [H5 [H6 [H7 [H8 H9]]]]]]]].
  destruct (vds_facts sk m H4 H8) as [Wv Lv].
  unfold Rw. rewrite vds_flush_header.
  unfold ic_flush_header. destruct (i_hflushed (m_ic m)) eqn:E; [exact H|].
  cbn [m_tx m_ic m_ds i_hflushed i_status i_released]. unfold pend in *. cbn [m_tx m_ic i_released].
  unfold vds in *. rewrite E in *.
  spl; try assumption; try apply Wv. - rewrite H2. symmetry. exact Lv. - discriminate.
Qed.

Lemma Rw_buffer : forall cfg sk dd m t' x, Rw cfg sk dd m ->
  buffering cfg (m_tx m) && negb (i_released (m_ic m)) = true ->
  t_intr t' = None -> buffering cfg t' = buffering cfg (m_tx m) -> t_rbuf t' = t_rbuf (m_tx m) ++ x ->
  Rw cfg sk (ds_write sk x dd) (mw_set_tx t' m).
Proof.
  intros cfg sk dd m t' x [H1 [H2 [H3 [H4 [H5 [H6 [H7 [H8 H9]]]]]]]] B I C Rb.
  pose proof (write_view sk x dd H3) as V. cbv zeta in V. destruct V as [A [W [F [Inf [Fi Bo]]]]].
  pose proof C as Bt.
  unfold Rw, pend, vds in *. cbn [mw_set_tx m_tx m_ic m_ds] in *. rewrite Bt, B in *.
  rewrite A, Inf, Fi, Bo, H7, Rb, H6.
  spl; try assumption; try reflexivity.
  - rewrite <- app_assoc. f_equal. destruct (okb sk _); reflexivity.
  - rewrite F. discriminate.
Qed.

Lemma Rw_refused : forall cfg sk dd m x, Rw cfg sk dd m -> okb sk (fin (vds sk m)) = false ->
  Rw cfg sk (ds_write sk x dd) m.
Proof.
  intros cfg sk dd m x [H1 [H2 [H3 [H4 [H5 [H6 [H7 [H8 H9]]]]]]]] O.
  pose proof (write_view sk x dd H3) as V. cbv zeta in V. destruct V as [A [W [F [Inf [Fi Bo]]]]].
  unfold Rw. rewrite A, Inf, Fi, Bo, H6, O, app_nil_r, F. rewrite O in H7.
  spl; try assumption; try discriminate; try reflexivity.
Qed.

Lemma Rw_direct : forall cfg sk dd m x, Rw cfg sk dd m ->
  i_hflushed (m_ic m) = true -> pend cfg m = [] ->
  Rw cfg sk (ds_write sk x dd) (mw_set_ds (ds_write sk x (m_ds m)) m).
Proof.
  intros cfg sk dd m x [H1 [H2 [H3 [H4 [H5 [H6 [H7 [H8 H9]]]]]]]] Hf P.
  pose proof (write_view sk x dd H3) as V. cbv zeta in V. destruct V as [A [W [F [Inf [Fi Bo]]]]].
  pose proof (write_view sk x (m_ds m) H4) as V. cbv zeta in V. destruct V as [A' [W' [F' [Inf' [Fi' Bo']]]]].
  unfold Rw, pend, vds in *. cbn [mw_set_ds m_tx m_ic m_ds] in *. rewrite Hf in *. rewrite P in *.
  rewrite A, A', Inf, Inf', Fi, Fi', Bo, Bo', F, H6, H7.
  destruct (okb sk (fin (m_ds m))); rewrite ?app_nil_r;
  spl; try assumption; try discriminate; try reflexivity.
Qed.

Lemma Rw_flush_dd : forall cfg sk dd m, Rw cfg sk dd m -> Rw cfg sk (ds_flush sk dd) m.
Proof.
  intros cfg sk dd m [H1 [H2 [H3 [H4 [H5 [H6 [H7 [H8 H9]]]]]]]].
  pose proof (flush_view sk dd H3) as V. cbv zeta in V. destruct V as [A [W [F [Inf [Fi Bo]]]]].
  unfold Rw. rewrite A, Inf, Fi, Bo, F. spl; try assumption; try discriminate; try reflexivity.
Qed.

Lemma Rw_flush_md : forall cfg sk dd m, Rw cfg sk dd m -> i_hflushed (m_ic m) = true ->
  Rw cfg sk dd (mw_set_ds (ds_flush sk (m_ds m)) m).
Proof.
  intros cfg sk dd m [H1 [H2 [H3 [H4 [H5 [H6 [H7 [H8 H9]]]]]]]] Hf.
  pose proof (flush_view sk (m_ds m) H4) as V. cbv zeta in V. destruct V as [A [W [F [Inf [Fi Bo]]]]].
  unfold Rw, pend, vds in *. cbn [mw_set_ds m_tx m_ic m_ds] in *. rewrite Hf in *.
  rewrite A, Inf, Fi, Bo. spl; try assumption; try discriminate; try reflexivity.
Qed.

(* writeBufferedResponseBodyToDownstream *)
Lemma Rw_release : forall cfg sk dd m, Rw cfg sk dd m ->
  buffering cfg (m_tx m) && negb (i_released (m_ic m)) = true ->
  let m3 := ic_release sk m in
  Rw cfg sk dd m3 /\ i_hflushed (m_ic m3) = true /\
  (i_released (m_ic m3) = false -> okb sk (fin (vds sk m)) = false) /\
  (i_released (m_ic m3) = true -> pend cfg m3 = []) /\
  i_status (m_ic m3) = i_status (m_ic m) /\ i_wrote (m_ic m3) = i_wrote (m_ic m).
Proof.
  intros cfg sk dd m H B m3.
  pose proof (Rw_flush_header cfg sk dd m H) as H'.
  pose proof (vds_flush_header sk m) as Vf.
  pose proof (fh_hflushed sk m) as Hf.
  apply andb_true_iff in B as [B1 B2]. apply negb_true_iff in B2.
  subst m3. unfold ic_release. rewrite B2.
  remember (ic_flush_header sk m) as m1 eqn:M1.
  assert (m_tx m1 = m_tx m) as T1 by (subst m1; apply fh_tx).
  assert (i_released (m_ic m1) = false) as R1 by (subst m1; rewrite fh_released; exact B2).
  assert (i_status (m_ic m1) = i_status (m_ic m)) as S1
    by (subst m1; unfold ic_flush_header; destruct (i_hflushed (m_ic m)); reflexivity).
  assert (i_wrote (m_ic m1) = i_wrote (m_ic m)) as W1 by (subst m1; apply fh_wrote).
  clear M1.
  destruct H' as [H1 [H2 [H3 [H4 [H5 [H6 [H7 [H8 H9]]]]]]]].
  assert (vds sk m1 = m_ds m1) as V1 by (unfold vds; rewrite Hf; reflexivity).
  rewrite V1 in *.
  assert (pend cfg m1 = t_rbuf (m_tx m1)) as P1 by (unfold pend; rewrite T1, R1, B1; reflexivity).
  rewrite P1 in H7.
  cbn [m_tx m_ic m_ds i_released i_hflushed i_status i_wrote].
  rewrite (accepts_okb sk (t_rbuf (m_tx m1)) (m_ds m1) H4).
  rewrite <- Vf.
  set (buf := t_rbuf (m_tx m1)) in *.
  pose proof (write_view sk buf (m_ds m1) H4) as V. cbv zeta in V. destruct V as [A [W [F [Inf [Fi Bo]]]]].
  spl; try assumption.
  - (* Rw *)
    unfold Rw, pend, vds. cbn [m_tx m_ic m_ds i_released i_hflushed i_status]. rewrite Hf.
    destruct (bytes_nil buf) eqn:N.
    + apply bytes_nil_true in N. rewrite N in *. cbn [orb]. rewrite Bool.andb_false_r.
      destruct (okb sk (fin (m_ds m1))); rewrite ?app_nil_r in *; spl; try assumption; try discriminate; try reflexivity.
    + cbn [orb]. rewrite A, Inf, Fi, Bo.
      destruct (okb sk (fin (m_ds m1))) eqn:O.
      * cbn [negb]. rewrite Bool.andb_false_r, app_nil_r.
        spl; try assumption; try discriminate; try reflexivity.
      * rewrite !app_nil_r in *. spl; try assumption; try discriminate; try reflexivity.
  - intro X. apply orb_false_iff in X as [_ X]. exact X.
  - intro X. unfold pend. cbn [m_tx m_ic i_released]. rewrite X. rewrite Bool.andb_false_r. reflexivity.
Qed.

(* ==================== part P6 ==================== *)

Lemma takeN_0 : forall b, takeN 0 b = [].
Proof. destruct b; reflexivity. Qed.

Lemma resp_body_fields : forall cfg t,
  t_rbuf (tx_resp_body cfg t) = t_rbuf t /\ buffering cfg (tx_resp_body cfg t) = buffering cfg t.
Proof.
  intros. split; [|apply resp_body_buffering]. unfold tx_resp_body. destruct (t_intr t); [reflexivity|].
  destruct (negb (t_last t =? 3)); reflexivity.
Qed.

Lemma resp_headers_rbuf : forall cfg c live t, t_rbuf (tx_resp_headers cfg c live t) = t_rbuf t.
Proof.
  intros. unfold tx_resp_headers. destruct (3 <=? t_last t); [reflexivity|]. destruct (t_intr t); reflexivity.
Qed.

Lemma write_resp_none : forall cfg b t t' n, t_intr t = None -> tx_write_resp cfg b t = (t', None, n) ->
  t_intr t' = None /\ buffering cfg t' = buffering cfg t /\ t_rbuf t' = t_rbuf t ++ takeN n b.
Proof.
  intros cfg b t t' n I. unfold tx_write_resp.
  destruct (t_rlim t =? blen (t_rbuf t)).
  { destruct (eff_action _ _); intro H; inversion H; subst; rewrite takeN_0, app_nil_r; auto. }
  destruct (t_rlim t <=? blen (t_rbuf t) + blen b).
  { destruct (eff_action _ _).
    - rewrite I. cbn. intro H; inversion H.
    - intro H. inversion H. subst. clear H.
      destruct (resp_body_fields cfg (tx_set_rbuf (t_rbuf t ++ takeN (t_rlim t - blen (t_rbuf t)) b) t)) as [A B].
      rewrite A, B. cbn. auto. }
  intro H; inversion H; subst. cbn. rewrite takeN_all by apply N.le_refl. auto.
Qed.

Lemma fh_status : forall sk m, i_status (m_ic (ic_flush_header sk m)) = i_status (m_ic m).
Proof. intros. unfold ic_flush_header. destruct (i_hflushed (m_ic m)); reflexivity. Qed.

(* ------------------------------------------------------------------ Write, status already recorded *)
Lemma sim_write : forall cfg sk b dd m, Rw cfg sk dd m -> i_wrote (m_ic m) = true ->
  t_intr (m_tx (ic_write cfg sk b m)) = None ->
  Rw cfg sk (ds_write sk b dd) (ic_write cfg sk b m) /\
  i_status (m_ic (ic_write cfg sk b m)) = i_status (m_ic m) /\
  i_wrote (m_ic (ic_write cfg sk b m)) = true.
Proof.
  intros cfg sk b dd m H W. pose proof H as [H1 [H2 [H3 _]]].
  unfold ic_write. rewrite H1, W, H1.
  destruct (buffering cfg (m_tx m) && negb (i_released (m_ic m))) eqn:B.
  - destruct (tx_write_resp cfg b (m_tx m)) as [[t' it] n] eqn:E.
    destruct it as [it|].
    { intro X. rewrite block_tx in X. cbn in X.
      destruct (write_resp_it cfg b (m_tx m) t' (Some it) n E) as [Y|[Y _]]; congruence. }
    destruct (write_resp_none cfg b (m_tx m) t' n H1 E) as [I' [C' Rb']].
    pose proof (Rw_buffer cfg sk dd m t' (takeN n b) H B I' C' Rb') as Rbuf.
    destruct (n =? blen b) eqn:N.
    + intros _. apply N.eqb_eq in N. subst n. rewrite takeN_all in Rbuf by apply N.le_refl.
      split; [exact Rbuf | split; [reflexivity | exact W]].
    + assert (buffering cfg (m_tx (mw_set_tx t' m)) && negb (i_released (m_ic (mw_set_tx t' m))) = true) as B2.
      { cbn [mw_set_tx m_tx m_ic]. rewrite C'. exact B. }
      pose proof (Rw_release cfg sk _ _ Rbuf B2) as Rel. cbv zeta in Rel.
      remember (ic_release sk (mw_set_tx t' m)) as m3 eqn:M3.
      destruct Rel as [Rrel [Hf3 [Hnot [Hpend [St Wr]]]]].
      cbn in St, Wr. clear M3.
      destruct (i_released (m_ic m3)) eqn:R3.
      * intros _. split; [|split; cbn; congruence].
        apply (Rw_veq cfg sk _ _ _ (veq_split_write sk n b dd H3)).
        apply Rw_direct; [exact Rrel | exact Hf3 | apply Hpend; reflexivity].
      * intros _. split; [|split; congruence].
        apply (Rw_veq cfg sk _ _ _ (veq_split_write sk n b dd H3)).
        apply Rw_refused; [exact Rrel|].
        pose proof Rrel as [_ [_ [_ [_ [_ [F3 _]]]]]].
        pose proof Rbuf as [_ [_ [_ [_ [_ [F2 _]]]]]].
        rewrite <- F3, F2. apply Hnot. reflexivity.
  - intros _.
    pose proof (Rw_flush_header cfg sk dd m H) as H'.
    split; [|split; cbn; rewrite ?fh_status, ?fh_wrote; congruence].
    apply Rw_direct; [exact H' | apply fh_hflushed |].
    unfold pend. rewrite fh_tx, fh_released, B. reflexivity.
Qed.

(* ------------------------------------------------------------------ the first WriteHeader *)
Lemma sim_wh_fresh : forall cfg sk c dd m, R0 dd m -> i_wrote (m_ic m) = false ->
  t_intr (m_tx (ic_write_header cfg sk c m)) = None ->
  Rw cfg sk (ds_write_header sk c dd) (ic_write_header cfg sk c m) /\
  i_status (m_ic (ic_write_header cfg sk c m)) = c.
Proof.
  intros cfg sk c dd m [H1 [H2 [H3 [H4 [[Pd1 [Pd2 Pd3]] [[Pm1 [Pm2 Pm3]] [Hf [Hr [Hb Hs]]]]]]]]] W X.
  pose proof (wh_tx cfg sk c m) as T. rewrite W in T. rewrite T in X.
  unfold ic_write_header. rewrite W, X.
  set (t' := tx_resp_headers cfg c (d_live (m_ds m)) (m_tx m)) in *.
  set (m1 := mkmw t' (mkic c (i_hflushed (m_ic m)) true (i_released (m_ic m)) (i_allow (m_ic m))) (m_ds m)).
  (* R for the state right after recording the status *)
  assert (Rw cfg sk (ds_write_header sk c dd) m1) as R1.
  { pose proof (wh_none sk c dd Pd1) as Vd. cbv zeta in Vd. destruct Vd as [A [B [S [F [I G]]]]].
    pose proof (wh_none sk c (m_ds m) Pm1) as Vm. cbv zeta in Vm. destruct Vm as [A' [B' [S' [F' [I' G']]]]].
    unfold Rw, vds, pend. subst m1. cbn [m_tx m_ic m_ds i_hflushed i_status i_released]. rewrite Hf.
    rewrite A, B, I, G, B', I', G', Pd2, Pd3, Pm2, Pm3. subst t'. rewrite resp_headers_rbuf, Hb.
    spl; try assumption; try reflexivity.
    - split; [exact S | rewrite A; apply H3].
    - destruct (okb sk _); [destruct (buffering _ _ && _)|]; reflexivity.
    - intros _. unfold pristine. spl; assumption.
    - rewrite F. destruct (sk && is_info c) eqn:Z; [|discriminate]. intros _.
      apply andb_true_iff in Z. apply Z. }
  assert (Rw cfg sk (ds_write_header sk c dd) (if c =? 101 then ic_flush_header sk m1 else m1) /\
          i_status (m_ic (if c =? 101 then ic_flush_header sk m1 else m1)) = c) as [R2 S2].
  { destruct (c =? 101); [split; [apply Rw_flush_header; exact R1 | rewrite fh_status; reflexivity] | split; [exact R1 | reflexivity]]. }
  destruct (negb (buffering cfg t')); [|split; assumption].
  split; [exact R2 | exact S2].
Qed.

(* ------------------------------------------------------------------ stickiness of the interruption *)
Lemma write_sticky : forall cfg sk b m x, t_intr (m_tx m) = Some x -> ic_write cfg sk b m = m.
Proof. intros. unfold ic_write. rewrite H. reflexivity. Qed.

Lemma wh_sticky : forall cfg sk c m x, t_intr (m_tx m) = Some x ->
  t_intr (m_tx (ic_write_header cfg sk c m)) = Some x.
Proof.
  intros. rewrite wh_tx. destruct (i_wrote (m_ic m)); [exact H | apply resp_headers_sticky; exact H].
Qed.

(* if a Write ends without interruption, so did its implicit WriteHeader *)
Lemma write_none_header_none : forall cfg sk b m, i_wrote (m_ic m) = false ->
  t_intr (m_tx (ic_write cfg sk b m)) = None ->
  t_intr (m_tx (ic_write_header cfg sk 200 m)) = None /\
  ic_write cfg sk b m = ic_write cfg sk b (ic_write_header cfg sk 200 m).
Proof.
  intros cfg sk b m W X.
  destruct (t_intr (m_tx m)) eqn:I.
  { rewrite (write_sticky cfg sk b m i I) in X. congruence. }
  destruct (t_intr (m_tx (ic_write_header cfg sk 200 m))) eqn:J.
  - exfalso. unfold ic_write in X. rewrite I, W, J in X. congruence.
  - split; [reflexivity|]. unfold ic_write at 1 2. rewrite I, J, W, wh_wrote. reflexivity.
Qed.

Lemma step_sticky : forall cfg sk op m x, t_intr (m_tx m) = Some x -> t_intr (m_tx (mw_step cfg sk m op)) = Some x.
Proof.
  intros cfg sk op m x I. destruct op; cbn [mw_step]; try exact I.
  - apply wh_sticky; exact I.
  - rewrite (write_sticky cfg sk b m x I). exact I.
  - unfold ic_flush.
    assert (t_intr (m_tx (if i_wrote (m_ic m) then m else ic_write_header cfg sk 200 m)) = Some x) as Y
      by (destruct (i_wrote (m_ic m)); [exact I | apply wh_sticky; exact I]).
    destruct (_ && _); exact Y.
  - revert m I. induction chunks as [|b cs IH]; intros m I; cbn; [exact I|].
    apply IH. rewrite (write_sticky cfg sk b m x I). exact I.
Qed.

Lemma steps_sticky : forall cfg sk ops m x, t_intr (m_tx m) = Some x ->
  t_intr (m_tx (fold_left (mw_step cfg sk) ops m)) = Some x.
Proof.
  intros cfg sk ops. induction ops as [|op ops IH]; intros m x I; cbn; [exact I|].
  apply IH. apply step_sticky. exact I.
Qed.

Lemma finish_sticky : forall cfg sk m x, t_intr (m_tx m) = Some x -> ic_finish cfg sk m = m.
Proof. intros. unfold ic_finish. rewrite H. reflexivity. Qed.

Lemma run_none_now_none : forall cfg sk ops m,
  t_intr (m_tx (ic_finish cfg sk (fold_left (mw_step cfg sk) ops m))) = None -> t_intr (m_tx m) = None.
Proof.
  intros cfg sk ops m X. destruct (t_intr (m_tx m)) eqn:I; [|reflexivity].
  pose proof (steps_sticky cfg sk ops m i I) as Y.
  rewrite (finish_sticky cfg sk _ i Y) in X. congruence.
Qed.

(* ==================== part P7 ==================== *)

Section Sim.
Variable cfg : config.
Variable sk : bool.

Lemma sim_write_fresh : forall b dd m, R0 dd m -> i_wrote (m_ic m) = false ->
  t_intr (m_tx (ic_write cfg sk b m)) = None ->
  Rw cfg sk (ds_write sk b dd) (ic_write cfg sk b m) /\
  i_status (m_ic (ic_write cfg sk b m)) = 200 /\ i_wrote (m_ic (ic_write cfg sk b m)) = true.
Proof.
  intros b dd m H W X.
  destruct (write_none_header_none cfg sk b m W X) as [J E]. rewrite E in *.
  destruct (sim_wh_fresh cfg sk 200 dd m H W J) as [R1 S1].
  destruct (sim_write cfg sk b _ _ R1 (wh_wrote cfg sk 200 m) X) as [R2 [S2 W2]].
  rewrite write_after_header200 in R2. split; [exact R2 | split; [congruence | exact W2]].
Qed.

Lemma writes_sticky : forall cs m x, t_intr (m_tx m) = Some x ->
  t_intr (m_tx (fold_left (fun m b => ic_write cfg sk b m) cs m)) = Some x.
Proof.
  induction cs as [|b cs IH]; intros m x I; cbn; [exact I|].
  apply IH. rewrite (write_sticky cfg sk b m x I). exact I.
Qed.

Lemma sim_writes : forall cs dd m, Rw cfg sk dd m -> i_wrote (m_ic m) = true ->
  t_intr (m_tx (fold_left (fun m b => ic_write cfg sk b m) cs m)) = None ->
  Rw cfg sk (fold_left (fun d b => ds_write sk b d) cs dd) (fold_left (fun m b => ic_write cfg sk b m) cs m) /\
  i_status (m_ic (fold_left (fun m b => ic_write cfg sk b m) cs m)) = i_status (m_ic m) /\
  i_wrote (m_ic (fold_left (fun m b => ic_write cfg sk b m) cs m)) = true.
Proof.
  induction cs as [|b cs IH]; intros dd m H W X; cbn in *; [split; [exact H | split; [reflexivity | exact W]]|].
  assert (t_intr (m_tx (ic_write cfg sk b m)) = None) as X1.
  { destruct (t_intr (m_tx (ic_write cfg sk b m))) eqn:I; [|reflexivity].
    rewrite (writes_sticky cs _ i I) in X. discriminate. }
  destruct (sim_write cfg sk b dd m H W X1) as [R1 [S1 W1]].
  destruct (IH _ _ R1 W1 X) as [R2 [S2 W2]].
  split; [exact R2 | split; [congruence | exact W2]].
Qed.

(* ------------------------------------------------------------------ guards on the remaining operations *)
Definition g_hdr (ops : list hop) (m : mws) : bool :=
  if i_wrote (m_ic m) then forallb (fun o => negb (is_hdr_op o)) ops else no_late_headers ops.
Definition g_info (ops : list hop) (m : mws) : Prop :=
  no_status_after_info ops = true /\
  (i_wrote (m_ic m) = true -> is_info (i_status (m_ic m)) = true -> forallb (fun o => negb (is_wh o)) ops = true).

Lemma nsai_tail : forall op r, no_status_after_info (op :: r) = true -> no_status_after_info r = true.
Proof. intros op r H. destruct op; cbn in H; try exact H. apply andb_true_iff in H. apply H. Qed.

(* guards after an operation that leaves the interceptor with a recorded, non-informational status *)
Lemma guards_after_commit : forall op r m m', commits op = true -> is_wh op = false ->
  g_hdr (op :: r) m = true -> g_info (op :: r) m ->
  i_wrote (m_ic m') = true ->
  (i_wrote (m_ic m) = true -> i_status (m_ic m') = i_status (m_ic m)) ->
  (i_wrote (m_ic m) = false -> i_status (m_ic m') = 200) ->
  g_hdr r m' = true /\ g_info r m'.
Proof.
  intros op r m m' C NW G [N I] W' S1 S2. unfold g_hdr, g_info in *. rewrite W'.
  split.
  - destruct (i_wrote (m_ic m)); cbn in G; [apply andb_true_iff in G; apply G | rewrite C in G; exact G].
  - split; [apply (nsai_tail op r N)|]. intros _ Hi.
    destruct (i_wrote (m_ic m)) eqn:W.
    + rewrite (S1 eq_refl) in Hi. specialize (I eq_refl Hi). cbn in I. apply andb_true_iff in I. apply I.
    + rewrite (S2 eq_refl) in Hi. discriminate.
Qed.

Lemma guards_after_idle : forall op r m m', commits op = false -> is_wh op = false ->
  g_hdr (op :: r) m = true -> g_info (op :: r) m ->
  m_ic m' = m_ic m ->
  g_hdr r m' = true /\ g_info r m'.
Proof.
  intros op r m m' C NW G [N I] E. unfold g_hdr, g_info in *. rewrite E.
  split.
  - destruct (i_wrote (m_ic m)); cbn in G; [apply andb_true_iff in G; apply G | rewrite C in G; exact G].
  - split; [apply (nsai_tail op r N)|]. intros W Hi. specialize (I W Hi). cbn in I.
    apply andb_true_iff in I. apply I.
Qed.

Lemma R_wrote : forall dd m, i_wrote (m_ic m) = true -> R cfg sk dd m -> Rw cfg sk dd m.
Proof. intros dd m W H. unfold R in H. rewrite W in H. exact H. Qed.
Lemma R_fresh : forall dd m, i_wrote (m_ic m) = false -> R cfg sk dd m -> R0 dd m.
Proof. intros dd m W H. unfold R in H. rewrite W in H. exact H. Qed.
Lemma Rw_R : forall dd m, i_wrote (m_ic m) = true -> Rw cfg sk dd m -> R cfg sk dd m.
Proof. intros dd m W H. unfold R. rewrite W. exact H. Qed.

Lemma sim_step : forall op r dd m, R cfg sk dd m ->
  g_hdr (op :: r) m = true -> g_info (op :: r) m -> touches_cl op = false ->
  t_intr (m_tx (mw_step cfg sk m op)) = None ->
  R cfg sk (ds_step sk dd op) (mw_step cfg sk m op) /\
  g_hdr r (mw_step cfg sk m op) = true /\ g_info r (mw_step cfg sk m op).
Proof.
  intros op r dd m H G GI TC X.
  destruct (i_wrote (m_ic m)) eqn:W.
  - (* a status is already recorded *)
    pose proof (R_wrote dd m W H) as Hw.
    destruct op; cbn [mw_step ds_step] in *.
    + (* WriteHeader: superfluous on both sides *)
      unfold ic_write_header. rewrite W.
      assert (d_final dd <> None) as F.
      { intro F. destruct Hw as [_ [_ [_ [_ [_ [_ [_ [_ H9]]]]]]]]. destruct GI as [_ I].
        specialize (I W (H9 F)). cbn in I. discriminate. }
      destruct (d_final dd) eqn:E; [|congruence]. rewrite (wh_some sk c dd n E).
      split; [exact H|]. destruct GI as [N I]. unfold g_hdr, g_info in *. rewrite W in *. cbn in G.
      split; [exact G|]. split; [apply (nsai_tail _ _ N)|].
      intros _ Hi. specialize (I eq_refl Hi). cbn in I. discriminate.
    + unfold g_hdr in G. rewrite W in G. cbn in G. discriminate.
    + unfold g_hdr in G. rewrite W in G. cbn in G. discriminate.
    + unfold g_hdr in G. rewrite W in G. cbn in G. discriminate.
    + destruct (sim_write cfg sk b dd m Hw W X) as [R1 [S1 W1]].
      split; [apply Rw_R; assumption|].
      apply (guards_after_commit (HWrite b) r m); auto; intro; congruence.
    + (* Flush *)
      unfold ic_flush in *. rewrite W in *.
      pose proof (Rw_flush_dd cfg sk dd m Hw) as R1.
      destruct (i_allow (m_ic m) && i_hflushed (m_ic m)) eqn:AF.
      * apply andb_true_iff in AF as [_ AF].
        split; [apply Rw_R; [exact W | apply Rw_flush_md; assumption]|].
        apply (guards_after_commit HFlush r m); auto; intro; congruence.
      * split; [apply Rw_R; assumption|].
        apply (guards_after_commit HFlush r m); auto; intro; congruence.
    + destruct (sim_writes chunks dd m Hw W X) as [R1 [S1 W1]].
      split; [apply Rw_R; assumption|].
      destruct chunks as [|b cs].
      * apply (guards_after_idle (HReadFrom []) r m); auto.
      * apply (guards_after_commit (HReadFrom (b :: cs)) r m); auto; intro; congruence.
    + split; [exact H|]. apply (guards_after_idle (HRead n) r m); auto.
    + split; [exact H|]. apply (guards_after_idle HReadAll r m); auto.
  - (* nothing recorded yet *)
    pose proof (R_fresh dd m W H) as H0.
    destruct op; cbn [mw_step ds_step] in *.
    + destruct (sim_wh_fresh cfg sk c dd m H0 W X) as [R1 S1].
      pose proof (wh_wrote cfg sk c m) as W1.
      split; [apply Rw_R; assumption|].
      destruct GI as [N I]. unfold g_hdr, g_info in *. rewrite W in G. rewrite W1. cbn in G, N.
      apply andb_true_iff in N as [N1 N2].
      split; [exact G|]. split; [exact N2|]. intros _ Hi. rewrite S1 in Hi. rewrite Hi in N1. exact N1.
    + (* header operations before anything is committed *)
      split.
      * unfold R. cbn [mw_set_ds m_ic]. rewrite W.
        destruct H0 as [H1 [H2 [[S3 C3] [[S4 C4] [Pd [Pm Rest]]]]]].
        unfold R0. cbn [mw_set_ds m_tx m_ic m_ds ds_set_live d_live d_final d_infos d_body].
        rewrite H2. unfold wfd, snap_ok, pristine in *. cbn [ds_set_live d_live d_final d_snap d_infos d_body].
        destruct Pd as [Pd1 [Pd2 Pd3]]. destruct Pm as [Pm1 [Pm2 Pm3]]. destruct Rest as [Q1 [Q2 [Q3 Q4]]].
        spl; try assumption; try reflexivity; try (intro; congruence);
          try (apply cl_of_hdr_step; [exact TC | congruence]).
      * apply (guards_after_idle (HSet k v) r m); auto.
    + split.
      * unfold R. cbn [mw_set_ds m_ic]. rewrite W.
        destruct H0 as [H1 [H2 [[S3 C3] [[S4 C4] [Pd [Pm Rest]]]]]].
        unfold R0. cbn [mw_set_ds m_tx m_ic m_ds ds_set_live d_live d_final d_infos d_body].
        rewrite H2. unfold wfd, snap_ok, pristine in *. cbn [ds_set_live d_live d_final d_snap d_infos d_body].
        destruct Pd as [Pd1 [Pd2 Pd3]]. destruct Pm as [Pm1 [Pm2 Pm3]]. destruct Rest as [Q1 [Q2 [Q3 Q4]]].
        spl; try assumption; try reflexivity; try (intro; congruence);
          try (apply cl_of_hdr_step; [exact TC | congruence]).
      * apply (guards_after_idle (HAdd k v) r m); auto.
    + split.
      * unfold R. cbn [mw_set_ds m_ic]. rewrite W.
        destruct H0 as [H1 [H2 [[S3 C3] [[S4 C4] [Pd [Pm Rest]]]]]].
        unfold R0. cbn [mw_set_ds m_tx m_ic m_ds ds_set_live d_live d_final d_infos d_body].
        rewrite H2. unfold wfd, snap_ok, pristine in *. cbn [ds_set_live d_live d_final d_snap d_infos d_body].
        destruct Pd as [Pd1 [Pd2 Pd3]]. destruct Pm as [Pm1 [Pm2 Pm3]]. destruct Rest as [Q1 [Q2 [Q3 Q4]]].
        spl; try assumption; try reflexivity; try (intro; congruence);
          try (apply cl_of_hdr_step; [exact TC | congruence]).
      * apply (guards_after_idle (HDel k) r m); auto.
    + destruct (sim_write_fresh b dd m H0 W X) as [R1 [S1 W1]].
      split; [apply Rw_R; assumption|].
      apply (guards_after_commit (HWrite b) r m); auto; intro; congruence.
    + (* Flush first *)
      unfold ic_flush in *. rewrite W in *.
      assert (t_intr (m_tx (ic_write_header cfg sk 200 m)) = None) as J
        by (destruct (_ && _) in X; exact X).
      destruct (sim_wh_fresh cfg sk 200 dd m H0 W J) as [R1 S1].
      pose proof (wh_wrote cfg sk 200 m) as W1.
      pose proof (Rw_flush_dd cfg sk _ _ R1) as R2. rewrite flush_after_header200 in R2.
      destruct (i_allow (m_ic (ic_write_header cfg sk 200 m)) && i_hflushed (m_ic (ic_write_header cfg sk 200 m))) eqn:AF.
      * apply andb_true_iff in AF as [_ AF].
        split; [apply Rw_R; [exact W1 | apply Rw_flush_md; assumption]|].
        apply (guards_after_commit HFlush r m); auto; intro; congruence.
      * split; [apply Rw_R; assumption|].
        apply (guards_after_commit HFlush r m); auto; intro; congruence.
    + destruct chunks as [|b cs].
      * cbn. split; [exact H|]. apply (guards_after_idle (HReadFrom []) r m); auto.
      * cbn [fold_left] in *.
        assert (t_intr (m_tx (ic_write cfg sk b m)) = None) as X1.
        { destruct (t_intr (m_tx (ic_write cfg sk b m))) eqn:I; [|reflexivity].
          rewrite (writes_sticky cs _ i I) in X. discriminate. }
        destruct (sim_write_fresh b dd m H0 W X1) as [R1 [S1 W1]].
        destruct (sim_writes cs _ _ R1 W1 X) as [R2 [S2 W2]].
        split; [apply Rw_R; assumption|].
        apply (guards_after_commit (HReadFrom (b :: cs)) r m); auto; intro; congruence.
    + split; [exact H|]. apply (guards_after_idle (HRead n) r m); auto.
    + split; [exact H|]. apply (guards_after_idle HReadAll r m); auto.
Qed.

(* ------------------------------------------------------------------ the responseProcessor at the end *)
Lemma sim_finish : forall dd m, R cfg sk dd m ->
  t_intr (m_tx (ic_finish cfg sk m)) = None ->
  client_of sk (m_ds (ic_finish cfg sk m)) = client_of sk dd.
Proof.
  intros dd m H X. rewrite !client_of_view.
  assert (forall d1 d2, wfd d1 -> wfd d2 -> d_live d1 = d_live d2 -> d_infos d1 = d_infos d2 ->
          fin d1 = fin d2 -> d_body d1 = d_body d2 ->
          mkclient (fin d1) (snapf d1) (d_body d1) (d_infos d1) = mkclient (fin d2) (snapf d2) (d_body d2) (d_infos d2)) as K.
  { intros d1 d2 [S1 _] [S2 _] L I F B. rewrite (snapf_live d1 S1), (snapf_live d2 S2), L, I, F, B. reflexivity. }
  unfold ic_finish in *.
  destruct (i_wrote (m_ic m)) eqn:W.
  - pose proof (R_wrote dd m W H) as Hw. pose proof Hw as [H1 _]. rewrite H1 in *.
    destruct (buffering cfg (m_tx m) && negb (i_released (m_ic m))) eqn:B.
    + destruct (t_intr (tx_resp_body cfg (m_tx m))) eqn:E.
      { rewrite block_tx in X. cbn in X. congruence. }
      destruct (resp_body_fields cfg (m_tx m)) as [Fb Fc].
      assert (Rw cfg sk dd (mw_set_tx (tx_resp_body cfg (m_tx m)) m)) as R1.
      { destruct Hw as [_ [H2 [H3 [H4 [H5 [H6 [H7 [H8 H9]]]]]]]].
        unfold Rw, pend, vds in *. cbn [mw_set_tx m_tx m_ic m_ds]. unfold buffering, processable in *.
        rewrite Fb, Fc. spl; assumption. }
      assert (buffering cfg (m_tx (mw_set_tx (tx_resp_body cfg (m_tx m)) m)) &&
              negb (i_released (m_ic (mw_set_tx (tx_resp_body cfg (m_tx m)) m))) = true) as B1.
      { cbn. unfold buffering, processable in *. rewrite Fc. exact B. }
      pose proof (Rw_release cfg sk dd _ R1 B1) as Rel. cbv zeta in Rel.
      remember (ic_release sk (mw_set_tx (tx_resp_body cfg (m_tx m)) m)) as m3.
      destruct Rel as [[_ [L3 [Wd [Wm [I3 [F3 [B3 _]]]]]]] [Hf3 [Hnot [Hpend _]]]].
      assert (vds sk m3 = m_ds m3) as V3 by (unfold vds; rewrite Hf3; reflexivity).
      rewrite V3 in *.
      symmetry. apply K; try assumption.
      rewrite B3. destruct (i_released (m_ic m3)) eqn:R3.
      * rewrite (Hpend eq_refl). destruct (okb sk _); apply app_nil_r.
      * pose proof R1 as [_ [_ [_ [_ [_ [F1 _]]]]]]. rewrite <- F3, F1, (Hnot eq_refl). apply app_nil_r.
    + set (m1 := mkmw (m_tx m) (mkic (i_status (m_ic m)) (i_hflushed (m_ic m)) true (i_released (m_ic m)) true) (m_ds m)) in *.
      assert (Rw cfg sk dd m1) as R1 by exact Hw.
      pose proof (Rw_flush_header cfg sk dd m1 R1) as [_ [L3 [Wd [Wm [I3 [F3 [B3 _]]]]]]].
      assert (vds sk (ic_flush_header sk m1) = m_ds (ic_flush_header sk m1)) as V3
        by (unfold vds; rewrite fh_hflushed; reflexivity).
      rewrite V3 in *.
      assert (pend cfg (ic_flush_header sk m1) = []) as P
        by (unfold pend; rewrite fh_tx, fh_released; subst m1; cbn [m_tx m_ic i_released]; rewrite B; reflexivity).
      rewrite P in B3. symmetry. apply K; try assumption.
      rewrite B3. destruct (okb sk _); apply app_nil_r.
  - pose proof (R_fresh dd m W H) as [H1 [H2 [H3 [H4 [[Pd1 [Pd2 Pd3]] [[Pm1 [Pm2 Pm3]] [Hf [Hr [Hb Hs]]]]]]]]].
    rewrite H1 in *.
    assert (forall t ic, i_hflushed ic = false -> i_status ic = 200 ->
            let md := m_ds (ic_flush_header sk (mkmw t ic (m_ds m))) in
            mkclient (fin md) (snapf md) (d_body md) (d_infos md) =
            mkclient (fin dd) (snapf dd) (d_body dd) (d_infos dd)) as K2.
    { intros t ic Hf' Hs' md. subst md. unfold ic_flush_header. cbn [m_tx m_ic m_ds].
      rewrite Hf', Hs'. cbn [m_ds].
      pose proof (wh_none sk 200 (m_ds m) Pm1) as V. cbv zeta in V. rewrite is_info_200, Bool.andb_false_r in V.
      destruct V as [A [B [S [F [I G]]]]].
      destruct H3 as [S3 C3]. destruct H4 as [S4 C4].
      rewrite (snapf_live _ S), (snapf_live _ S3), A, B, I, G, Pm2, Pm3, Pd2, Pd3, H2.
      unfold fin. rewrite Pd1. reflexivity. }
    destruct (buffering cfg (m_tx m) && negb (i_released (m_ic m))) eqn:B.
    + destruct (t_intr (tx_resp_body cfg (m_tx m))) eqn:E.
      { rewrite block_tx in X. cbn in X. congruence. }
      destruct (resp_body_fields cfg (m_tx m)) as [Fb Fc].
      unfold ic_release. cbn [mw_set_tx m_tx m_ic m_ds]. rewrite Hr.
      cbn [m_tx m_ic m_ds i_released].
      rewrite fh_tx. cbn [mw_set_tx m_tx]. rewrite Fb, Hb. cbn [bytes_nil orb].
      apply (K2 (tx_resp_body cfg (m_tx m)) (m_ic m) Hf Hs).
    + apply (K2 (m_tx m) (mkic (i_status (m_ic m)) (i_hflushed (m_ic m)) false (i_released (m_ic m)) true) Hf Hs).
Qed.

Lemma sim_run : forall ops dd m, R cfg sk dd m ->
  g_hdr ops m = true -> g_info ops m -> no_own_cl ops = true ->
  t_intr (m_tx (ic_finish cfg sk (fold_left (mw_step cfg sk) ops m))) = None ->
  client_of sk (m_ds (ic_finish cfg sk (fold_left (mw_step cfg sk) ops m))) =
  client_of sk (fold_left (ds_step sk) ops dd).
Proof.
  induction ops as [|op r IH]; intros dd m H G GI CL X; cbn [fold_left] in *.
  - apply sim_finish; assumption.
  - pose proof (run_none_now_none cfg sk r _ X) as X1.
    unfold no_own_cl in CL. cbn in CL. apply andb_true_iff in CL as [CL1 CL2].
    apply negb_true_iff in CL1.
    destruct (sim_step op r dd m H G GI CL1 X1) as [H' [G' GI']].
    apply IH; assumption.
Qed.

End Sim.

(* ==================== part P8 ==================== *)

(* ------------------------------------------------------------------ the three claims on WrapHandler *)
Lemma R_init : forall cfg sk t0, t_intr t0 = None -> t_rbuf t0 = [] -> R cfg sk ds_init (mw_start t0).
Proof.
  intros cfg sk t0 H1 H2. unfold R, R0, wfd, snap_ok, pristine. cbn.
  repeat match goal with |- _ /\ _ => split end; try reflexivity; try assumption; intro; congruence.
Qed.

Lemma tx_after_request_fresh : forall cfg body,
  t_intr (tx_after_request cfg body) = None /\ t_rbuf (tx_after_request cfg body) = [].
Proof. intros. split; reflexivity. Qed.

Theorem passthrough_holds : forall cfg sk body ops,
  no_late_headers ops = true -> no_status_after_info ops = true -> no_own_cl ops = true ->
  let r := wrap_handler cfg sk body ops in
  r_intr r = None ->
  r_invoked r = true /\
  r_read r = r_read (bare_handler sk body ops) /\
  client_of sk (r_ds r) = client_of sk (r_ds (bare_handler sk body ops)).
Proof.
  intros cfg sk body ops L I C r. subst r. unfold wrap_handler, bare_handler.
  destruct (c_engine cfg); cbn [r_intr r_invoked r_read r_ds].
  3: { intros _. repeat split; reflexivity. }
  all: destruct (mw_request cfg body) as [it|view] eqn:Q; cbn [r_intr r_invoked r_read r_ds];
    [discriminate|]; intro X; apply mw_request_view in Q; subst view;
    (split; [reflexivity|]); (split; [reflexivity|]);
    unfold run_mw_handler, run_direct in *;
    apply (sim_run cfg sk ops ds_init _ (R_init cfg sk (tx_after_request cfg body) eq_refl eq_refl)); try assumption;
    unfold g_info; (split; [assumption|]); cbn; intro; discriminate.
Qed.

Theorem response_block_wrap : forall cfg sk body ops,
  let r := wrap_handler cfg sk body ops in
  r_invoked r = true -> r_intr r <> None -> cl_body (client_of sk (r_ds r)) = [].
Proof.
  intros cfg sk body ops r. subst r. unfold wrap_handler.
  destruct (c_engine cfg); cbn [r_intr r_invoked r_ds]; try congruence.
  all: destruct (mw_request cfg body); cbn [r_intr r_invoked r_ds]; try discriminate;
    intros _ X; apply response_block_holds; [reflexivity | exact X].
Qed.

(* the handler's req.Body is the client's body, whatever was buffered *)
Theorem handler_view_is_body : forall cfg sk body ops,
  let r := wrap_handler cfg sk body ops in
  r_invoked r = true -> r_read r = h_read (run_hst ops body).
Proof.
  intros cfg sk body ops r. subst r. unfold wrap_handler.
  destruct (c_engine cfg); cbn [r_invoked r_read]; try reflexivity.
  all: destruct (mw_request cfg body) eqn:Q; cbn [r_invoked r_read]; try discriminate;
    intros _; apply mw_request_view in Q; subst; reflexivity.
Qed.

(* ------------------------------------------------------------------ when is a request blocked *)
Lemma request_blocked_iff : forall cfg body,
  (exists it, mw_request cfg body = RBlocked it) <->
  (rule_intr cfg (c_ph1 cfg) <> None \/
   (eff_qacc cfg = true /\ eff_qlim cfg <= blen body /\ eff_action cfg (c_req_action cfg) = Reject) \/
   rule_intr cfg (c_ph2 cfg (if eff_qacc cfg then takeN (eff_qlim cfg) body else [])) <> None).
Proof.
  intros cfg body.
  assert (forall l n, blen (takeN n l) = N.min n (blen l)) as TL.
  { induction l as [|x l IH]; intro n; cbn; [unfold blen; cbn; lia|].
    destruct (n =? 0) eqn:E; [apply N.eqb_eq in E; subst; unfold blen; cbn; lia|].
    apply N.eqb_neq in E. unfold blen in *. cbn [length]. rewrite !Nat2N.inj_succ, IH. lia. }
  unfold mw_request.
  destruct (rule_intr cfg (c_ph1 cfg)) eqn:P1.
  { split; [intros _; left; discriminate | intros _; eexists; reflexivity]. }
  destruct (eff_qacc cfg) eqn:A.
  - destruct (blen (takeN (eff_qlim cfg) body) =? eff_qlim cfg) eqn:L.
    + apply N.eqb_eq in L. rewrite TL in L.
      destruct (eff_action cfg (c_req_action cfg)) eqn:Act.
      * split; [intros _; right; left; repeat split; lia | intros _; eexists; reflexivity].
      * destruct (rule_intr cfg (c_ph2 cfg (takeN (eff_qlim cfg) body))) eqn:P2.
        -- split; [intros _; right; right; discriminate | intros _; eexists; reflexivity].
        -- split; [intros [it H]; discriminate | intros [H|[[_ [_ H]]|H]]; congruence].
    + apply N.eqb_neq in L. rewrite TL in L.
      destruct (rule_intr cfg (c_ph2 cfg (takeN (eff_qlim cfg) body))) eqn:P2.
      * split; [intros _; right; right; discriminate | intros _; eexists; reflexivity].
      * split; [intros [it H]; discriminate | intros [H|[[_ [H _]]|H]]; try congruence; lia].
  - destruct (rule_intr cfg (c_ph2 cfg [])) eqn:P2.
    + split; [intros _; right; right; discriminate | intros _; eexists; reflexivity].
    + split; [intros [it H]; discriminate | intros [H|[[H _]|H]]; congruence].
Qed.

(* ------------------------------------------------------------------ documented expectations the code does not meet *)
Definition cfg_plain : config :=
  mkcfg EOn false 8 Reject false 8 Reject [str "text/plain"%string] None (fun _ => None) (fun _ _ => None) (fun _ _ _ => None) ctl_none (fun _ => ctl_none) (fun _ _ => ctl_none).

(* F28a: a request-phase redirect is answered with 200 *)
Lemma request_redirect_refuted : exists cfg body ops it,
  mw_request cfg body = RBlocked it /\ in_act it = ARedirect /\ in_status it = 302 /\
  cl_status (client_of true (r_ds (wrap_handler cfg true body ops))) = 200.
Proof.
  exists (mkcfg EOn false 8 Reject false 8 Reject [] (Some (mkintr ARedirect 302)) (fun _ => None) (fun _ _ => None) (fun _ _ _ => None) ctl_none (fun _ => ctl_none) (fun _ _ => ctl_none)).
  exists [], [HWrite [120]], (mkintr ARedirect 302). repeat split; reflexivity.
Qed.

(* F28b: WriteHeader(103) then WriteHeader(404): the bare handler answers 404, behind the middleware 200 *)
Lemma informational_status_refuted : exists cfg body ops,
  r_intr (wrap_handler cfg true body ops) = None /\
  cl_status (client_of true (r_ds (bare_handler true body ops))) = 404 /\
  cl_status (client_of true (r_ds (wrap_handler cfg true body ops))) = 200.
Proof.
  exists cfg_plain, [], [HWriteHeader 103; HWriteHeader 404; HWrite [110; 102]]. repeat split; reflexivity.
Qed.

(* a header set after WriteHeader reaches the client only behind the middleware *)
Lemma late_header_refuted : exists cfg body ops k,
  r_intr (wrap_handler cfg true body ops) = None /\
  h_get k (cl_headers (client_of true (r_ds (bare_handler true body ops)))) = [] /\
  h_get k (cl_headers (client_of true (r_ds (wrap_handler cfg true body ops)))) <> [].
Proof.
  exists cfg_plain, [], [HWriteHeader 201; HSet (str "X-Late"%string) [49]; HWrite [120]], (str "X-Late"%string).
  repeat split; try reflexivity. cbn. discriminate.
Qed.

(* F52 (repaired by d961889): before the repair a phase-3 deny raised inside Write's implicit
   WriteHeader did not stop that Write - a writer that does not enforce Content-Length
   (httptest.ResponseRecorder) delivered 403 together with the handler's bytes. The former witness,
   on the repaired code: *)
Example implicit_header_block_repaired :
  let cfg := mkcfg EOn false 8 Reject false 8 Reject [] None (fun _ => None)
                   (fun _ _ => Some (mkintr ADeny 403)) (fun _ _ _ => None)
                   ctl_none (fun _ => ctl_none) (fun _ _ => ctl_none) in
  let r := wrap_handler cfg false [] [HWrite [83; 69; 67]] in
  r_invoked r = true /\ r_intr r = Some (mkintr ADeny 403) /\
  cl_status (client_of false (r_ds r)) = 403 /\ cl_body (client_of false (r_ds r)) = [].
Proof. repeat split; reflexivity. Qed.

(* ------------------------------------------------------------------ the bare handler's client, explicitly *)
Theorem bare_spec : forall sk body ops, no_late_headers ops = true -> no_own_cl ops = true ->
  let c := client_of sk (r_ds (bare_handler sk body ops)) in
  cl_status c = handler_status sk ops /\ cl_headers c = handler_headers ops /\
  cl_body c = (if okb sk (handler_status sk ops) then written ops else []).
Proof.
  intros sk body ops L C c. subst c. unfold bare_handler. cbn [r_ds]. rewrite client_of_view. cbn.
  assert (wfd ds_init) as W by (split; [intro X; cbn in X; congruence | reflexivity]).
  destruct (direct_fresh sk ops ds_init W eq_refl eq_refl L C) as [_ [F [S B]]].
  unfold run_direct. rewrite F, S, B. repeat split; reflexivity.
Qed.

Corollary passthrough_spec : forall cfg sk body ops,
  no_late_headers ops = true -> no_status_after_info ops = true -> no_own_cl ops = true ->
  let r := wrap_handler cfg sk body ops in
  r_intr r = None ->
  let c := client_of sk (r_ds r) in
  r_invoked r = true /\ r_read r = h_read (run_hst ops body) /\
  cl_status c = handler_status sk ops /\ cl_headers c = handler_headers ops /\
  cl_body c = (if okb sk (handler_status sk ops) then written ops else []).
Proof.
  intros cfg sk body ops L I C r X c. subst c.
  destruct (passthrough_holds cfg sk body ops L I C X) as [A [B E]]. fold r in E.
  destruct (bare_spec sk body ops L C) as [S1 [S2 S3]].
  rewrite E. repeat split; assumption.
Qed.

(* ------------------------------------------------------------------ request-phase blocking *)
Lemma request_block_holds : forall cfg sk body ops it,
  c_engine cfg <> EOff ->
  mw_request cfg body = RBlocked it ->
  let r := wrap_handler cfg sk body ops in
  r_invoked r = false /\ r_read r = [] /\ r_intr r = Some it /\
  cl_body (client_of sk (r_ds r)) = [] /\
  d_trace (r_ds r) = [DHeader (status_of it 200) []] /\
  (is_info (status_of it 200) = false -> cl_status (client_of sk (r_ds r)) = status_of it 200).
Proof.
  intros cfg sk body ops it Hoff Hreq r. subst r. unfold wrap_handler.
  destruct (c_engine cfg) eqn:E; try congruence; rewrite Hreq; cbn.
  all: repeat split; try reflexivity.
  all: unfold client_of, ds_finish, ds_implicit, ds_write_header; cbn;
       destruct (sk && is_info (status_of it 200)) eqn:F; cbn; try reflexivity.
  all: try (intros Hi; rewrite Hi in F; rewrite Bool.andb_false_r in F; discriminate).
  all: rewrite ?Bool.andb_false_r; cbn; try reflexivity.
  all: try (intros Hi; rewrite Hi in F; rewrite Bool.andb_false_r in F; discriminate).
Qed.

Lemma handler_reads_body_holds : forall cfg sk body ops,
  let r := wrap_handler cfg sk body ops in
  r_invoked r = true ->
  r_read r = h_read (run_hst ops body) /\
  (exists rest, r_read r ++ rest = body) /\
  (In HReadAll ops -> r_read r = body).
Proof.
  intros cfg sk body ops r H. pose proof (handler_view_is_body cfg sk body ops H) as E. fold r in E.
  split; [exact E|]. rewrite E. split.
  - exists (h_view (run_hst ops body)). apply handler_reads_prefix.
  - apply handler_readall_exact.
Qed.

(* a non-trivial instance of the guards of the pass-through theorems: buffered response, ProcessPartial
   limit crossed in the middle of a chunk, flushes, ReadFrom, request body above its limit *)
Definition ex_cfg : config :=
  mkcfg EOn true 3 Partial true 5 Partial [str "text/plain"%string] None (fun _ => None) (fun _ _ => None) (fun _ _ _ => None) ctl_none (fun _ => ctl_none) (fun _ _ => ctl_none).
Definition ex_ops : list hop :=
  [HSet K_CT (str "text/plain"%string); HSet (str "X-A"%string) [97]; HRead 2; HReadAll; HWriteHeader 201;
   HWrite [1; 2; 3]; HFlush; HReadFrom [[4; 5; 6]; [7]]; HWrite []; HFlush; HWrite [8]].
Example passthrough_guard_example :
  no_late_headers ex_ops = true /\ no_status_after_info ex_ops = true /\ no_own_cl ex_ops = true /\
  let r := wrap_handler ex_cfg true [10; 11; 12; 13; 14] ex_ops in
  r_intr r = None /\ r_read r = [10; 11; 12; 13; 14] /\
  cl_status (client_of true (r_ds r)) = 201 /\ cl_body (client_of true (r_ds r)) = [1; 2; 3; 4; 5; 6; 7; 8].
Proof. repeat split; reflexivity. Qed.

(* ------------------------------------------------------------------ ctl: the buffering decision is taken after phase 3 *)
(* after the first WriteHeader (no interruption) flushing is allowed exactly when the transaction,
   as the phase-3 rules and their ctl actions left it, will not buffer the body *)
Lemma buffering_after_phase3_holds : forall cfg sk c m,
  i_wrote (m_ic m) = false -> i_allow (m_ic m) = false ->
  let m' := ic_write_header cfg sk c m in
  t_intr (m_tx m') = None ->
  m_tx m' = tx_resp_headers cfg c (d_live (m_ds m)) (m_tx m) /\
  i_allow (m_ic m') = negb (buffering cfg (m_tx m')).
Proof.
  intros cfg sk c m W A m' X. subst m'.
  pose proof (wh_tx cfg sk c m) as T. rewrite W in T. split; [exact T|].
  rewrite T in *. unfold ic_write_header. rewrite W, X.
  destruct (buffering cfg (tx_resp_headers cfg c (d_live (m_ds m)) (m_tx m))); cbn [negb];
    destruct (c =? 101); cbn; unfold ic_flush_header; cbn; try destruct (i_hflushed (m_ic m)); cbn; try reflexivity; exact A.
Qed.

(* and a Write after it is buffered, not passed on, exactly in that case (nothing reaches the writer) *)
Lemma buffered_write_reaches_no_writer : forall cfg sk b m,
  t_intr (m_tx m) = None -> i_wrote (m_ic m) = true -> i_released (m_ic m) = false ->
  buffering cfg (m_tx m) = true -> blen (t_rbuf (m_tx m)) + blen b < t_rlim (m_tx m) ->
  m_ds (ic_write cfg sk b m) = m_ds m /\ t_rbuf (m_tx (ic_write cfg sk b m)) = t_rbuf (m_tx m) ++ b.
Proof.
  intros cfg sk b m I W R B L. unfold ic_write. rewrite I, W, I, B, R. cbn [negb andb].
  unfold tx_write_resp.
  assert (t_rlim (m_tx m) =? blen (t_rbuf (m_tx m)) = false) as E1 by (apply N.eqb_neq; lia).
  assert (t_rlim (m_tx m) <=? blen (t_rbuf (m_tx m)) + blen b = false) as E2 by (apply N.leb_gt; lia).
  rewrite E1, E2, I, N.eqb_refl. cbn. split; reflexivity.
Qed.

(* the shape of seed C18-g: static SecResponseBodyAccess Off, a phase-3 rule switches buffering on by ctl
   (responseBodyAccess=On, forceResponseBodyVariable=On), phase 4 denies: nothing of the body passes *)
Example ctl_phase3_switches_buffering_on :
  let cfg := mkcfg EOn false 8 Reject false 100 Reject [] None (fun _ => None) (fun _ _ => None)
                   (fun _ _ body => if is_substring [83; 69; 67] body then Some (mkintr ADeny 403) else None)
                   ctl_none (fun _ => ctl_none)
                   (fun _ _ => mkctl None None (Some true) (Some true) None) in
  let ops := [HWrite [116; 111; 112]; HFlush; HReadFrom [[83; 69]; [67]]; HWrite [33]] in
  (forall sk, let r := wrap_handler cfg sk [] ops in
     r_invoked r = true /\ r_intr r = Some (mkintr ADeny 403) /\
     rev (d_trace (r_ds r)) = [DHeader 403 [(K_CL, [[48]])]] /\ cl_body (client_of sk (r_ds r)) = []).
Proof. intros cfg ops sk; destruct sk; repeat split; reflexivity. Qed.
