(* Props/C04.v — the property theorems of C04 and nothing else. *)
From Verif Require Import Base Transform Determinism DeterminismProofs.
