(* Pool.v — model of transaction recycling (C05).
   /repo/internal/corazawaf/waf.go newTransaction, transaction.go Close / variables.reset,
   internal/sync pool.  The model is PARAMETRIC in what the source says: the field lists are a
   record [source_facts] that the translator verif-facts regenerates from go/ast on every run
   (coq/gen/FactsC05.v); the isolation theorem of PoolProofs.v is instantiated there. *)
From Coq Require Import String List Bool Arith.
Import ListNotations.
Open Scope string_scope.

Record source_facts := {
  sf_tx_fields : list string;            (* fields of struct Transaction *)
  sf_assigned_always : list string;      (* tx.F = ... executed on every newTransaction *)
  sf_assigned_first_only : list string;  (* assigned only inside `if tx.requestBodyBuffer == nil` *)
  sf_var_types : list (string * string); (* TransactionVariables field -> Go type *)
  sf_var_constructed : list string;      (* fields NewTransactionVariables assigns *)
  sf_var_visited : list string;          (* fields All() passes to its visitor *)
  sf_var_defaults : list string;         (* tx.variables.f.Set(..) executed on every newTransaction *)
  sf_types_with_reset : list string;     (* collection types that have a Reset method *)
  sf_reset_via_all : bool;               (* reset() = All(.. Reset ..) *)
  sf_close_calls : list string;          (* which of the expected calls Close contains *)
  sf_eval_clears_cache : bool            (* RuleGroup.Eval clears tx.transformationCache *)
}.

Definition mem (s : string) (l : list string) : bool := existsb (String.eqb s) l.

Fixpoint lookup (s : string) (l : list (string * string)) : option string :=
  match l with
  | [] => None
  | (k, v) :: r => if String.eqb s k then Some v else lookup s r
  end.

(* collection types that are views over other collections and hold no state of their own
   (internal/collections: ConcatKeyed, SizeCollection, and the Names views held as collection.Keyed) *)
Definition stateless_types : list string :=
  ["*collections.ConcatKeyed"; "*collections.SizeCollection"; "collection.Keyed"].

(* what a view may hold: references to the collections it reads and the id of the variable it stands for.
   verif-facts lists the struct fields of SizeCollection, ConcatKeyed, ConcatCollection and
   NamedCollectionNames as ("Type.field", Go type); anything else (a counter, a memo, a map) is state. *)
Definition view_reference_types : list string :=
  ["[]*NamedCollection"; "*NamedCollection"; "[]collection.Keyed"; "[]collection.Collection"; "variables.RuleVariable"].
Definition views_ok (fields : list (string * string)) : bool :=
  forallb (fun ft => mem (snd ft) view_reference_types) fields
  && existsb (fun ft => String.prefix "SizeCollection." (fst ft)) fields
  && existsb (fun ft => String.prefix "ConcatKeyed." (fst ft)) fields
  && existsb (fun ft => String.prefix "NamedCollectionNames." (fst ft)) fields.

(* the containers newTransaction creates once and Close / Eval empty *)
Definition containers : list string :=
  ["requestBodyBuffer"; "responseBodyBuffer"; "variables"; "transformationCache"].

Definition vkey (f : string) : string := "variables." ++ f.

(* An object: is it brand new (never initialised), and an abstract value per key.
   Keys are Transaction field names and "variables.<field>"; value 0 is the zero / empty /
   freshly-constructed state, anything else is "some content". *)
Record obj := { o_fresh : bool; o_val : string -> nat }.
Definition brand_new : obj := {| o_fresh := true; o_val := fun _ => 0 |}.

(* what newTransaction assigns: a function of the WAF and of the options only *)
Definition waf_defaults := string -> nat.

Definition var_field_of (k : string) : option string :=
  if String.prefix "variables." k then Some (String.substring 10 (String.length k - 10) k) else None.

Definition new_transaction (src : source_facts) (w : waf_defaults) (o : obj) : string -> nat :=
  fun k =>
    match var_field_of k with
    | Some f =>
      let base := if o_fresh o then 0 else o_val o k in
      if mem f (sf_var_defaults src) then w k else base
    | None =>
      if mem k (sf_assigned_always src) then w k
      else if mem k (sf_assigned_first_only src) then (if o_fresh o then 0 else o_val o k)
      else o_val o k
    end.

Definition var_is_reset (src : source_facts) (f : string) : bool :=
  sf_reset_via_all src && mem "tx.variables.reset()" (sf_close_calls src) && mem f (sf_var_visited src)
  && match lookup f (sf_var_types src) with Some t => mem t (sf_types_with_reset src) | None => false end.

Definition close (src : source_facts) (o : obj) : obj :=
  {| o_fresh := false;
     o_val := fun k =>
       match var_field_of k with
       | Some f => if var_is_reset src f then 0 else o_val o k
       | None =>
         if String.eqb k "requestBodyBuffer" then (if mem "tx.requestBodyBuffer.Reset()" (sf_close_calls src) then 0 else o_val o k)
         else if String.eqb k "responseBodyBuffer" then (if mem "tx.responseBodyBuffer.Reset()" (sf_close_calls src) then 0 else o_val o k)
         else if String.eqb k "variables" then 0   (* the struct itself; its content are the variables.* keys *)
         else o_val o k
       end |}.

(* what a probe transaction can read: every Transaction field except the transformation cache
   (emptied by Eval before any use), and every stateful variable *)
Definition observable (src : source_facts) (k : string) : bool :=
  match var_field_of k with
  | Some f => match lookup f (sf_var_types src) with
              | Some t => negb (mem t stateless_types)
              | None => false
              end
  | None => mem k (sf_tx_fields src) && negb (String.eqb k "transformationCache" && sf_eval_clears_cache src)
  end.

(* ---- the obligations over the extracted facts (booleans: proved by computation on the
        regenerated lists) ---- *)
Definition list_eqb (a b : list string) : bool :=
  (Nat.eqb (length a) (length b)) && forallb (fun s => mem s b) a.

Definition tx_fields_ok (src : source_facts) : bool :=
  list_eqb (sf_assigned_first_only src) containers
  && forallb (fun f => mem f (sf_assigned_always src) || mem f (sf_assigned_first_only src)) (sf_tx_fields src)
  && forallb (fun f => negb (String.prefix "variables." f)) (sf_tx_fields src)
  && forallb (fun f => negb (mem f (sf_assigned_first_only src))) (sf_assigned_always src).

Definition var_fields_ok (src : source_facts) : bool :=
  forallb (fun ft => let '(f, t) := ft in
             mem f (sf_var_constructed src)
             && (mem t stateless_types || (mem f (sf_var_visited src) && mem t (sf_types_with_reset src))))
          (sf_var_types src).

Definition close_ok (src : source_facts) : bool :=
  sf_reset_via_all src && sf_eval_clears_cache src
  && mem "tx.variables.reset()" (sf_close_calls src)
  && mem "tx.requestBodyBuffer.Reset()" (sf_close_calls src)
  && mem "tx.responseBodyBuffer.Reset()" (sf_close_calls src)
  && mem "tx.WAF.txPool.Put(tx)" (sf_close_calls src).

(* ---- the pool and histories ---- *)
(* Objects carry an identity; the pool is a list of (id, object).  Get pops the head or creates a
   brand-new object with a new id; Put pushes. *)
Record pool_state := { p_pool : list (nat * obj); p_live : list (nat * obj); p_next : nat }.
Definition pool_init : pool_state := {| p_pool := []; p_live := []; p_next := 0 |}.

Inductive hop :=
  | HNew                         (* NewTransaction: Get + newTransaction *)
  | HDirty (id : nat) (v : string -> nat)   (* the transaction with that id runs: arbitrary writes *)
  | HClose (id : nat).           (* Close: reset + Put *)

Fixpoint remove_id (id : nat) (l : list (nat * obj)) : list (nat * obj) :=
  match l with
  | [] => []
  | (i, o) :: r => if Nat.eqb i id then r else (i, o) :: remove_id id r
  end.
Fixpoint find_id (id : nat) (l : list (nat * obj)) : option obj :=
  match l with
  | [] => None
  | (i, o) :: r => if Nat.eqb i id then Some o else find_id id r
  end.

Definition hstep (src : source_facts) (w : waf_defaults) (s : pool_state) (h : hop) : pool_state :=
  match h with
  | HNew =>
    match p_pool s with
    | (i, o) :: r =>
      {| p_pool := r; p_live := (i, {| o_fresh := false; o_val := new_transaction src w o |}) :: p_live s; p_next := p_next s |}
    | [] =>
      {| p_pool := []; p_live := (p_next s, {| o_fresh := false; o_val := new_transaction src w brand_new |}) :: p_live s;
         p_next := S (p_next s) |}
    end
  | HDirty id v =>
    match find_id id (p_live s) with
    | Some _ => {| p_pool := p_pool s; p_live := (id, {| o_fresh := false; o_val := v |}) :: remove_id id (p_live s); p_next := p_next s |}
    | None => s
    end
  | HClose id =>
    match find_id id (p_live s) with
    | Some o => {| p_pool := (id, close src o) :: p_pool s; p_live := remove_id id (p_live s); p_next := p_next s |}
    | None => s   (* Close of a transaction that is not live: excluded here; see double_close *)
    end
  end.

Definition hrun (src : source_facts) (w : waf_defaults) (hs : list hop) : pool_state :=
  fold_left (hstep src w) hs pool_init.

(* F22: Close on an object that was already closed puts it into the pool a second time *)
Definition double_close_step (src : source_facts) (s : pool_state) (id : nat) (o : obj) : pool_state :=
  {| p_pool := (id, close src o) :: p_pool s; p_live := p_live s; p_next := p_next s |}.
